"""Per-property wiring of bin/check: design models (Mode A), what makes a trace line non-trivial, assumptions."""

PROPS = {
    "C01": {
        "title": "civil calendar and day count agree for every date 0001-9999",
        "mc": {
            "quick": [{"module": "MC_Civil", "cfg": "MC_Civil_quick.cfg", "workers": 1}],
            "thorough": [{"module": "MC_Civil", "cfg": "MC_Civil.cfg", "workers": 1, "timeout": 3000}],
        },
        "rule": "day walks by SolarDay::next(1) over the boundary catalogue + seeded random windows (quick) or all 3,652,061 days (thorough); "
                "acceptance of every day 0..32 of every month 0..13 of sampled (quick) / all (thorough) years -1..10001; seeded next(n) and pair events. "
                "Non-trivial: month/year ends, leap days, 1582-10, in-range acceptance rows, steps that leave the month, pairs in different months",
        "exhaustive": {"quick": False, "thorough": True},
        "assumptions": ["MC_Civil certifies that Succ, JDN and DateOf of spec/Civil.tla agree on every date of the checked chain"],
        "level_text": "TLC model-checks the civil-calendar design model (successor chain vs closed-form day number vs its inverse over the whole date range) and validates, line by line, traces of the real code (day walks, acceptance tables, next(n), subtract/is_before/is_after) against that same specification; thorough enumerates all 3,652,061 days and all 4.6M candidate triples, so the property's own quantifier is covered completely",
        "level_note": "trusted: spec/Civil.tla (certified against itself by MC_Civil), TLC, the harness' logging; the astronomy is not involved",
        "technique": "TLA+ design model checked with TLC + trace validation of implementation walks against the same spec",
    },
}

NOT_APPLICABLE = {}
