"""Per-property wiring of bin/check: design models (Mode A), what makes a trace line non-trivial, assumptions."""

PROPS = {
    "C01": {
        "title": "civil calendar and day count agree for every date 0001-9999",
        "mc": {
            "quick": [{"module": "MC_Civil", "cfg": "MC_Civil_quick.cfg", "workers": 1}, {"module": "MC_Meeus", "cfg": "MC_Meeus_quick.cfg", "workers": 1}],
            "thorough": [{"module": "MC_Civil", "cfg": "MC_Civil.cfg", "workers": 1, "timeout": 3000}, {"module": "MC_Meeus", "cfg": "MC_Meeus.cfg", "workers": 1, "timeout": 3000}],
        },
        "rule": "day walks by SolarDay::next(1) over the boundary catalogue + seeded random windows (quick) or all 3,652,061 days (thorough); "
                "acceptance of every day 0..32 of every month 0..13 of sampled (quick) / all (thorough) years -1..10001; seeded next(n) and pair events. "
                "Non-trivial: month/year ends, leap days, 1582-10, in-range acceptance rows, steps that leave the month, pairs in different months",
        "exhaustive": {"quick": False, "thorough": True},
        "assumptions": ["MC_Civil certifies that Succ, JDN and DateOf of spec/Civil.tla agree on every date of the checked chain"],
        "level_text": "TLC model-checks the civil-calendar design model (successor chain vs closed-form day number vs its inverse over the whole date range) and validates, line by line, traces of the real code (day walks, acceptance tables, next(n), subtract/is_before/is_after) against that same specification; thorough enumerates all 3,652,061 days and all 4.6M candidate triples, so the property's own quantifier is covered completely",
        "level_note": "trusted: spec/Civil.tla (certified against itself by MC_Civil), TLC, the harness' logging; the astronomy is not involved",
        "technique": "TLA+ design model checked with TLC + trace validation of implementation walks against the same spec",
    },
    "C02": {
        "title": "solar<->lunar conversion is a bijection that preserves order",
        "mc": {"quick": [{"module": "MC_DayClock", "cfg": "MC_DayClock.cfg", "workers": 6},
                         {"module": "MC_LunarLookup", "cfg": "MC_LunarLookup.cfg", "workers": 4}],
               "thorough": [{"module": "MC_DayClock", "cfg": "MC_DayClock.cfg", "workers": 6},
                            {"module": "MC_LunarLookup", "cfg": "MC_LunarLookup_big.cfg", "workers": 6}]},
        "rule": "civil day walks (boundary catalogue incl. both reform periods + 30 seeded windows; thorough: all 3,652,061 days) logging the lunar date, both round trips, LunarDay::next(+-1), before/after/== against the previous day; "
                "lunar-side enumeration of every day 0..31 of every month of sampled (quick) / all (thorough) lunar years; ordered pairs from neighbouring months incl. leap twins. "
                "Non-trivial: month roll-overs, leap-month days, pairs with a leap month or across years",
        "exhaustive": {"quick": False, "thorough": True},
        "assumptions": ["month lengths and leap months are the implementation's own answers (constrained by C03/C04); the spec relates consecutive days and both directions of the conversion"],
        "level_text": "TLC checks the day clock with free astronomy (MC_DayClock: lunar order = day order, day within month) and validates day walks of the real code against its Tick action (day+1 in the month or day 1 of the successor label), both round trips, next/prev and the ordering predicates; the lunar side enumerates every accepted day of every month; thorough covers every civil date and every lunar date of years 0..9999",
        "level_note": "trusted: DayClock.tla / LunarCal.tla, TLC, harness logging",
        "technique": "TLA+ day-clock model checked with TLC + trace validation of day walks and lunar-side enumeration",
    },
    "C03": {
        "title": "lunar months tile time: 29/30 days, 12/13 per year, no gaps or overlaps",
        "mc": {"quick": [{"module": "MC_MonthClock", "cfg": "MC_MonthClock.cfg", "workers": 4},
                         {"module": "MC_MonthStep", "cfg": "MC_MonthStep.cfg", "workers": 4},
                         {"module": "MC_YearAnchor", "cfg": "MC_YearAnchor.cfg", "workers": 4}],
               "thorough": [{"module": "MC_MonthClock", "cfg": "MC_MonthClock.cfg", "workers": 4},
                            {"module": "MC_MonthStep", "cfg": "MC_MonthStep_big.cfg", "workers": 6, "heap": "8g"},
                            {"module": "MC_YearAnchor", "cfg": "MC_YearAnchor_big.cfg", "workers": 4, "heap": "8g"}]},
        "rule": "month walks by LunarMonth::next(1) over years 0-30, 230-245, 1640-1650, 1955-1965, 7990-8010, 9988-9999 + 40 seeded decades (quick) or all years 0..9999 (thorough); "
                "each lunation also through from_ym, the uncached constructor, next(0), next(-1), next(n) for 12 step counts; one record per lunar year. "
                "Non-trivial: leap months and their twins, first/last months of a year, leap years",
        "exhaustive": {"quick": False, "thorough": True},
        "assumptions": ["month lengths and leap months are the implementation's own answers; the spec only relates them (tiling, label succession, sums)"],
        "level_text": "TLC checks the label arithmetic of the month clock for every placement of leap months and 29/30-day lengths (MC_MonthClock) and validates month-by-month walks of the real code against the same NextMonth action (first' = first + len, label succession by the year's leap month, index, next/prev/next(n)/constructors agreeing); thorough walks all ~123,700 lunations of years 0..9999",
        "level_note": "trusted: LunarCal.tla label rules, TLC, harness logging; which month is leap is bound from LunarYear::get_leap_month (C04 relates it to the astronomy)",
        "technique": "TLA+ month-clock model checked with TLC + trace validation of month walks",
    },
    "C04": {
        "title": "month numbers and the leap month follow the no-major-term rule",
        "mc": {"quick": [{"module": "MC_LeapRule", "cfg": "MC_LeapRule12.cfg", "workers": 2}, {"module": "MC_LeapRule", "cfg": "MC_LeapRule13.cfg", "workers": 2}]},
        "rule": "one span (winter solstice of December Y-1 to that of December Y) per lunar year Y: 22 fixed + 600 seeded years (quick) or all years 27..9998 (thorough), minus the reform years 238-240 the property excludes; "
                "Non-trivial: spans of 13 lunations, where a leap month has to be placed",
        "exhaustive": {"quick": False, "thorough": True},
        "assumptions": ["new-moon days are LunarMonth::get_first_julian_day and major-term days SolarTerm::get_cursory_julian_day (the calendar-making days), as the property states"],
        "level_text": "TLC checks that the rule, as a labelling machine, is total and closes for every distribution of the 12 major terms over 12 or 13 lunations (MC_LeapRule) and validates for every span of the real code that the labels the rule computes from the library's own new-moon and major-term days are the labels the library gives (solstice lunation = 11, first lunation without a major term = leap, stored leap-month table consistent); thorough covers every lunar year 27..9998",
        "level_note": "trusted: LeapRule.tla, TLC, harness logging; years 238-240 are excluded by the property itself",
        "technique": "TLA+ leap-rule model checked with TLC + trace validation per solstice-to-solstice span",
    },
    "C05": {
        "title": "solar terms and new moons sit at the true Sun/Moon longitudes (integer-projected clauses)",
        "mc": {"quick": [{"module": "MC_MidnightGuard", "cfg": "MC_MidnightGuard.cfg", "workers": 2}, {"module": "MC_MidnightGuard", "cfg": "MC_MidnightGuardMoon.cfg", "workers": 2},
                         {"module": "MC_YearAnchor", "cfg": "MC_YearAnchor.cfg", "workers": 4}]},
        "rule": "all 24 terms and all lunations of sampled years (quick: every 5th year of 1900..2150, regime edges, 90 seeded years; thorough: every year 1..9999); the inverse solvers on a raw grid of target longitudes over +-10,000 years; TT-UT at every integer year -4000..10000; the closed-form low-precision instants of 1645..1959. "
                "Non-trivial: events within 30 min of midnight (the day depends on the fall-back), events inside the independent-theory window 1900..2150, TT-UT segment joins",
        "exhaustive": {"quick": False, "thorough": True},
        "assumptions": ["the distances to an independent theory are measured by ~80 lines of Rust in the harness (Meeus ch. 25 and ch. 49, Espenak-Meeus TT-UT polynomials): a trusted measuring instrument; the specification only bounds them",
                        "a change that moves an instant by less than the instrument's accuracy (about 15 min for terms, 1.5 min for new moons) and across no midnight is not detected"],
        "level_text": "TLC checks the day-level routine as a fast-solver / guard-band / precise-solver machine (MC_MidnightGuard: the reported day is the day of the precise instant whenever the fast solver's error is below the guard) and validates integer projections of the real code: calendar day = civil day of the precise instant for all terms from 1961 and all lunations 1961..8000, fast-solver error inside the guard band, inverse-solver residual below one arcsecond, TT-UT jumps below 5 s at every integer year, low-precision closed forms within their accuracy, and distance to an independent low-precision theory within that theory's accuracy",
        "level_note": "PARTLY applicable: the true-longitude clause rests on a Rust measuring routine with the spec as bound (weakest binding of this suite); the numeric series themselves cannot be modelled in TLA+ (no reals); everything else in this check is decided by TLC on logged integers",
        "technique": "TLA+ guard-band model checked with TLC + trace validation of integer-projected astronomical observations",
    },
    "C06": {
        "title": "every day belongs to exactly one solar term: ordered, evenly spaced, consistent",
        "mc": {"quick": [{"module": "MC_TermClock", "cfg": "MC_TermClock.cfg", "workers": 4},
                         {"module": "MC_TermLookup", "cfg": "MC_TermLookup.cfg", "workers": 2}]},
        "rule": "all 24 terms of sampled years (quick: edges of the regimes 1-6, 640-643, 1580-84, 1644-46, 1959-62, 7270-80, 8714-18, 9995-99 + 50 seeded triples; thorough: every (year 1..9999, index)) with next(+-1), next(n) vs from_index for 10 step counts, name lookup, parity; "
                "civil day walks (catalogue + 40 seeded windows; thorough every day) with the assigned term, day index, term day and next term day; instants one second before/at/after term instants and random instants inside terms. "
                "Non-trivial: year carries (index 0/23), term days and days with index >= 14, boundary instants",
        "exhaustive": {"quick": False, "thorough": True},
        "assumptions": ["term instants are the implementation's own answers (C05 relates them to the astronomy); the spec relates them to each other and to the day/instant assignment"],
        "level_text": "TLC checks the term clock with free spacing (MC_TermClock: latest-term-on-or-before assignment makes TermTick the only step, day index = days since term day <= 16, stepping = construction in both directions) and validates the real code's terms (order, 14.6-15.8 day gaps, year carry, next(n) = from_index(i+n)), the day->term mapping of day walks (bracketing by the next term's day, TermTick on every adjacent pair) and the instant->term mapping at +-1 s around every term instant; thorough covers all 239,976 terms and every civil date",
        "level_note": "trusted: TermClock.tla, Civil.tla day numbers, TLC, harness logging; instants are logged as (day number, second of day) from SolarTerm::get_julian_day().get_solar_time()",
        "technique": "TLA+ term-clock model checked with TLC + trace validation of term, day and instant views",
    },
    "C07": {
        "title": "day pillar and weekday advance one step per civil day from fixed anchors",
        "mc": {"quick": [{"module": "MC_DayClock", "cfg": "MC_DayClock.cfg", "workers": 6}]},
        "rule": "civil day walks (boundary catalogue + 30 seeded windows; thorough: every civil date) logging the weekday by 3 routes and the day pillar by 4 routes. "
                "Non-trivial: lunar month starts, civil month starts, October 1582, cycle wrap-arounds (Jiazi days, Sundays)",
        "exhaustive": {"quick": False, "thorough": True},
        "assumptions": [],
        "level_text": "TLC checks on the day-clock model that Tick (+1 mod 7, +1 mod 60 per day) keeps weekday = (day number+1) mod 7 and pillar = (day number+49) mod 60 (with two dated pillars as anchors) and validates walks of the real code against both the anchored invariants and Tick on every adjacent pair, for every route to the pillar; thorough covers all 3,652,061 days",
        "level_note": "trusted: DayClock.tla anchors (stated in the property), Civil.tla day numbers (C01), TLC, harness logging",
        "technique": "TLA+ day-clock model checked with TLC + trace validation of day walks",
    },
    "C08": {
        "title": "year pillar turns at Lichun, month pillar at each Jie, by the Five-Tigers rule",
        "mc": {"quick": [{"module": "MC_Pillars", "cfg": "MC_Pillars.cfg", "workers": 2}, {"module": "MC_YearTurn", "cfg": "MC_YearTurn.cfg", "workers": 2}]},
        "rule": "civil day walks (catalogue + 40 seeded windows; thorough every date 0001..9998) logging year/month pillar of the sexagenary-day view with the governing term and the Lichun day; "
                "instants one second before/at/after every Jie instant of sampled (quick) / all (thorough) years plus a random instant per Jie, with the day-level pillars of the same day; every sexagenary month and year of those years. "
                "Non-trivial: Jie days, Lichun and the day before, last days of a Qi, boundary instants, first/last month of a sexagenary year",
        "exhaustive": {"quick": False, "thorough": True},
        "assumptions": ["the governing term of a day/instant is the implementation's get_term_day/get_term (validated by C06); Lichun of year y is SolarTerm::from_index(y, 3)"],
        "level_text": "TLC checks the pillar model completely (MC_Pillars: Jie-by-Jie stepping reaches exactly the 720 legal pairs and agrees with the Five-Tigers closed form) and validates the real code's day-level and instant-level pillars against it: pillar-year = civil year from the Lichun day/instant on, month = Jie ordinal of the governing term, legal pair, advance exactly on Lichun / Jie days, time view = day view on days without a Jie; thorough covers every date 0001..9998 and +-1 s around all 119,976 Jie instants",
        "level_note": "trusted: Pillars.tla (Five Tigers from first principles), TermClock/Civil, TLC, harness logging",
        "technique": "TLA+ pillar model checked exhaustively with TLC + trace validation of day and instant views",
    },
    "C09": {
        "title": "hour pillar, 23:00 day roll-over and the eight-character round trip",
        "mc": {"quick": [{"module": "MC_HourPillar", "cfg": "MC_HourPillar.cfg", "workers": 1}, {"module": "MC_Pillars", "cfg": "MC_Pillars.cfg", "workers": 2}]},
        "rule": "Mode C: all 60 x 24 (day pillar, hour) cases generated by TLC from EightChar.tla, each replayed on a real date of three eras (4,320 events); 3,000 (quick) / 90,000 (thorough) seeded instants for the composition of the eight characters through both views; "
                "300 / 6,000 inverse searches from seeded probe instants (double-hours containing a Jie skipped) over year ranges of 1, 3, 121 and random width. "
                "Non-trivial: every table case, instants in the Zi double-hour or before Lichun, multi-year searches",
        "exhaustive": {"quick": False, "thorough": False},
        "assumptions": ["the governing term and the Lichun instant of an instant are the implementation's (C06, C08)"],
        "level_text": "TLC enumerates the complete (day pillar, hour) case table of the hour-pillar model (Five Rats, 23:00 roll, legal pillar, +1 per double-hour through midnight) and every case is replayed in the real code on real dates of three eras; random instants have their eight characters re-derived from day number, governing term and Lichun instant and compared through both views; inverse searches are validated for soundness (every result has the characters) and completeness (a result inside the probe's double-hour)",
        "level_note": "trusted: EightChar.tla / Pillars.tla, TLC, harness logging; the case table is exhaustive, compositions and searches are sampled",
        "technique": "TLC-generated case table replayed into the code + trace validation of compositions and inverse searches",
    },
    "C10": {
        "title": "answers do not depend on call history, thread interleaving or earlier refusals",
        "mc": {
            "quick": [{"module": "MC_Cache", "cfg": "MC_Cache.cfg", "workers": 6},
                      {"module": "MC_Cache", "cfg": "MC_Cache3.cfg", "workers": 6},
                      {"module": "MC_CacheHist", "cfg": "MC_CacheHist4.cfg", "workers": 1},
                      {"module": "MC_Lazy", "cfg": "MC_Lazy.cfg", "workers": 4},
                      {"module": "MC_LazyOps", "cfg": "MC_LazyOps4.cfg", "workers": 1}],
            "thorough": [{"module": "MC_Cache", "cfg": "MC_Cache.cfg", "workers": 8},
                         {"module": "MC_Cache", "cfg": "MC_Cache3.cfg", "workers": 8},
                         {"module": "MC_CacheHist", "cfg": "MC_CacheHist5.cfg", "workers": 1},
                         {"module": "MC_Lazy", "cfg": "MC_Lazy.cfg", "workers": 8},
                         {"module": "MC_LazyOps", "cfg": "MC_LazyOps5.cfg", "workers": 1}],
        },
        "rule": "Mode C: every sequential history of 4 (quick) / 5 (thorough) requests over an 8-request alphabet (colliding key families, a leap label, "
                "three kinds of invalid request) generated by TLC from Cache.tla and replayed after a memo reset; all colliding pairs {(y,11),(10y+1,1)}, {(y,12),(10y+1,2)}; "
                "Mode B: lock-ordered hook events (hit/miss/fill/refuse) of those replays, of 16-thread runs and of long mixed query histories validated against the memo model; "
                "every query of the mixed history answered again by a FRESH process (the strategy-object families include requests refused inside the strategy); getter orders on LunarDay/LunarHour values; "
                "Mode C on the per-value lazy memos: every client program of 4 (quick: 11,640) / 5 (thorough: 192,720) operations (views, via-clone getters, clones, steps over two registers) generated by TLC from Lazy.tla, "
                "each run on a real LunarDay and a real LunarHour, the reported positions and pillars compared with the fold of Lazy.tla's operators over the program. "
                "Non-trivial: history steps with a past, hits/fills/refusals, queries that returned, getter orders with distinct getters",
        "exhaustive": {"quick": False, "thorough": False},
        "assumptions": ["thread interleavings of the real code are those the OS produced in this run; all interleavings are explored on Cache.tla only",
                        "the cold-path oracle is the library's own uncached constructor LunarMonth::new and, for mixed queries, a fresh process of the same build"],
        "level_text": "TLC explores every interleaving of 2-3 threads over the memo model Cache.tla (invariants Correct, NoContagion, KeyInjective, CacheSound, lock discipline; liveness Termination) and generates every short request history; a second model, Lazy.tla, describes the per-value lazy memo cells of LunarDay / LunarHour (views, clones, steps) and TLC generates every short client program over two registers; the harness replays each history in the real code and TLC validates answers and the lock-ordered hook events (Hit must return what Fill stored for the same label) against the same model; 16-thread runs and long mixed histories are validated the same way and compared with fresh-process answers",
        "level_note": "trusted: Cache.tla's abstraction of from_ym (bound by the hit/miss/fill/refuse hook events), the guarded hooks, the OS scheduler for real interleavings; answers are compared with the uncached constructor / a fresh process of the same build, so a defect that is history-independent is out of scope here (C02/C03 cover it)",
        "technique": "TLA+ memo model: exhaustive interleavings with TLC, TLC-generated histories replayed into the code, hook-event trace validation",
    },
    "C11": {
        "title": "stepping by n is a consistent group action on every time unit and cycle",
        "mc": {"quick": [{"module": "MC_Stepping", "cfg": "MC_Stepping.cfg", "workers": 4}]},
        "rule": "every element of 42 cyclic types x 13 step counts (0, +-1, +-size, +-(size+1), +-(2 size+3), +-1000003, +-2000000011), from_index(i + k*size), name round trip, unknown name, 5 composition pairs (exhaustive over elements); "
                "300 (quick) / 15,000 (thorough) seeded (value, a, b) triples for each of 22 linear units, a fifth of them at the edges of the supported range (incl. sexagenary years -1, 0). "
                "Non-trivial: every cyclic element; linear steps that go backwards or leave the year/day",
        "exhaustive": {"quick": False, "thorough": False},
        "assumptions": ["for lunar months only the group laws and the direction of movement are checked here (their ordinal is the month walk of C03)"],
        "level_text": "TLC checks the modular stepping law for every cycle size of the library and all |n| <= 2 size + 3 and the floor carries of year-scaled ordinals across year 0 (MC_Stepping) and validates the real code: every element of every cyclic type against (index + n) mod size and its name/index inverses, and sampled triples of every linear unit against Step 0 = id, Step a then b = Step (a+b), Step a then -a = id and 'moves by exactly n units' through the unit's ordinal projection",
        "level_note": "trusted: Stepping.tla ordinal projections, Clock.tla for instants, TLC, harness logging; cyclic part exhaustive, linear part sampled",
        "technique": "TLA+ stepping laws checked with TLC + exhaustive (cyclic) and sampled (linear) trace validation",
    },
    "C12": {
        "title": "clock arithmetic to the second and Julian-date<->clock conversion are exact",
        "mc": {"quick": [{"module": "MC_TimeCarry", "cfg": "MC_TimeCarry.cfg", "workers": 2}, {"module": "MC_Clock", "cfg": "MC_Clock.cfg", "workers": 4}]},
        "rule": "seeded SolarTime::next(n) from special days (month/year ends, leap days, both sides of the 1582 gap, range ends) and random days with n from +-1 s to +-10^9 s; pairs for subtract/is_before/is_after/==; round trips through the Julian date; "
                "Julian dates on a millisecond grid (x.000 .250 .499 .501 .750 .999) around hh:59:59 / 23:59:59 on those days (quick ~12k events, thorough x25). "
                "Non-trivial: additions that change the day, pairs on different days, Julian dates that round up",
        "exhaustive": {"quick": False, "thorough": False},
        "assumptions": ["a Julian date is passed as f64; within 1 ms of a half-second tie either neighbouring second is accepted (float resolution at 2.4e6 days is 40 microseconds)"],
        "level_text": "TLC checks the clock model (MC_Clock: Add is a group action with floor carries through minute/hour/day in both directions, Diff inverts Add, order = sign of Diff, rounding a Julian date stays within half a second and carries into the next day) and validates every next(n), subtract, comparison, round trip and Julian-date conversion of the real code against the same operators on (day number, second) pairs, with the calendar fields checked through Civil.tla",
        "level_note": "trusted: Clock.tla, Civil.tla, TLC, harness logging; sampled, not exhaustive (the space of instants x offsets is ~10^21)",
        "technique": "TLA+ clock model checked with TLC + trace validation of seeded and boundary-grid calls",
    },
    "C13": {
        "title": "containers list exactly their parts: year, half, season, month, day, hour",
        "mc": {"quick": [{"module": "MC_Weeks", "cfg": "MC_Weeks.cfg", "workers": 2}, {"module": "MC_MonthClock", "cfg": "MC_MonthClock.cfg", "workers": 4}]},
        "rule": "civil years 18 fixed (incl. 1582) + 380 seeded (quick) / all 9,999 (thorough) with all their months; lunar years 16 fixed (incl. the reform years) + 80 seeded / all 0..9999 with all their months; hour slots of 300 / 5,000 seeded days; sexagenary months of 43 / 500 seeded years. "
                "Non-trivial: Februaries, Decembers, October 1582, leap years, leap months and first/last lunar months",
        "exhaustive": {"quick": False, "thorough": False},
        "assumptions": ["lunar month first days/lengths and Jie days are the implementation's own (C03, C06)"],
        "level_text": "TLC checks the week/month case analysis the expected listings rely on (MC_Weeks, MC_MonthClock) and validates one List event per container of the real code against Containers.tla: a civil year's halves, seasons and months and their nesting, a month's existing dates in order (October 1582: 1-4, 15-31), day-of-year and day counts agreeing with the lists, a lunar year's 12/13 labels, a lunar month's days 1..len on consecutive civil days, the 13 resp. 12 hour slots, a sexagenary month's days from its Jie day to the day before the next",
        "level_note": "trusted: Containers.tla / Civil.tla / LunarCal.tla, TLC, harness logging; thorough enumerates all civil and lunar years and months but samples days and sexagenary months",
        "technique": "TLA+ listing operators + trace validation of one List event per container",
    },
    "C14": {
        "title": "weeks of a month: seven consecutive days, right start weekday, no day lost",
        "mc": {"quick": [{"module": "MC_Weeks", "cfg": "MC_Weeks.cfg", "workers": 2},
                         {"module": "MC_WeekStep", "cfg": "MC_WeekStep.cfg", "workers": 4}],
               "thorough": [{"module": "MC_Weeks", "cfg": "MC_Weeks.cfg", "workers": 2},
                            {"module": "MC_WeekStep", "cfg": "MC_WeekStep_big.cfg", "workers": 6, "heap": "8g"}]},
        "rule": "civil months: 16 fixed (incl. 1582-09/10/11, Februaries of century years) + 560 seeded (quick) or all months 0001-02..9999-11 (thorough), each with all 7 week starts: week count, listed weeks and their days, the week of every date, next(n) of the first and last week for 16 step counts (all of -60..60 on a slice), index in year, acceptance of indices 0..6; lunar months of 33 / 600 seeded years likewise. "
                "Non-trivial: months whose first week straddles the previous month, 4- and 6-week months, October 1582",
        "exhaustive": {"quick": False, "thorough": True},
        "assumptions": ["lunar month first days / lengths are the implementation's own (C03)"],
        "level_text": "TLC checks the complete case analysis of weeks in a month (MC_Weeks: 7 first weekdays x lengths 21/28/29/30/31 x 7 week starts, walked week by week) and the week-stepping ALGORITHM itself as a transition system (WeekStep.tla: one action per loop iteration of SolarWeek::next / LunarWeek::next over every abstract calendar of 3-4 months with lengths 21/28/29/30/31, every start weekday, offered week and |n| <= 6 / 9: the named week begins 7n days later, is one the month offers, and the loop terminates), and validates the real code for every (month, week start) against the same operators on day numbers: count, first days on the chosen weekday 7 apart, seven consecutive days, coverage of every day, the week of each date containing it, next(n) moving the first day by 7n, index in the year, refusal of indices beyond the count; thorough covers every civil month x 7 starts",
        "level_note": "trusted: Weeks.tla, Civil.tla, TLC, harness logging; weeks are compared by first day",
        "technique": "TLA+ week case analysis checked exhaustively with TLC + trace validation per (month, week start)",
    },
    "C15": {
        "title": "term-anchored day series: Nines, Dog days, Plum rains, pentads, ruling stems",
        "mc": {"quick": [{"module": "MC_Series", "cfg": "MC_Series.cfg", "workers": 4}]},
        "rule": "civil day walks (catalogue + 20 seeded windows + the summers and winters of 60 seeded years; thorough every date) logging the six term days of the year, the governing term and Jie, and the five getters' answers. "
                "Non-trivial: days inside a Nine / Dog-day / Plum-rain series, first days of pentads and allotments",
        "exhaustive": {"quick": False, "thorough": True},
        "assumptions": ["term days are those of the term objects (C06); the day pillar is (day number + 49) mod 60 (C07)"],
        "level_text": "TLC checks the series sub-machines for every pillar phase of the solstice day and every solstice-to-autumn distance (MC_Series: Dog-day parts start on Geng days, 20-day middle part iff the fifth Geng day precedes the start of autumn, a Geng solstice counts, 81 Nine days, allotment indices count without gap) and validates the real code's five getters on every walked day against the same operators re-derived from term days and pillar; thorough covers every date of years 2..9998",
        "level_note": "trusted: Series.tla (classical allotment table transcribed from the month list, not from the packed digit string), TLC, harness logging",
        "technique": "TLA+ series sub-machines checked with TLC + trace validation of day walks",
    },
    "C16": {
        "title": "child limit and fortunes follow from birth instant, gender and the next Jie",
        "mc": {"quick": [{"module": "MC_Fortune", "cfg": "MC_Fortune.cfg", "workers": 4}, {"module": "MC_YearTurn", "cfg": "MC_YearTurn.cfg", "workers": 2}]},
        "rule": "9,000 (quick) / 60,000 (thorough) seeded birth instants 0002..9987 x gender (a sixth within 3 s of a Jie and on both sides of it, a sixth on the first/last day of a month, a sixth in 1571..1583 so that limits end around October 1582, a sixth within six days of the Lichun instant of a random year), each through ChildLimit (direction, counts, end, 12 decade and 20 yearly fortunes) and through the three other shipped strategies' get_info. "
                "Non-trivial: births on month ends or first days, limits that are zero or spill into another month",
        "exhaustive": {"quick": False, "thorough": False},
        "assumptions": ["Jie instants are those of the term objects (C06); the year/month/hour pillars of the birth are the implementation's (C08, C09)",
                        "calendar addition is read as: shift the month keeping the day-of-month number (a number missing there spills forward), then add days, hours and minutes on the time line"],
        "level_text": "TLC checks the seconds->counts conversion over a 32-day grid and the calendar addition from month-end births incl. October 1582 (MC_Fortune: counts recompose to the seconds, end never before birth and within about eleven years) and validates every ChildLimit of the real code: direction = Yang-year man / Yin-year woman, governing Jie by direction, counts, end instant through Civil.tla, decade fortunes (month pillar +-1 per decade, start ages 10 apart) and yearly fortunes (hour pillar +-age from the end year), and the three other strategies against their own unit tables",
        "level_note": "trusted: Fortune.tla (unit tables from the property / the strategies' documentation), Civil.tla, Clock.tla, TLC, harness logging; sampled",
        "technique": "TLA+ conversion/addition model checked with TLC + trace validation of seeded births through all four strategies",
    },
    "C17": {
        "title": "daily and hourly almanac cycles obey their defining recurrences",
        "mc": {"quick": [{"module": "MC_Almanac", "cfg": "MC_Almanac.cfg", "workers": 4}]},
        "rule": "civil day walks (catalogue + 30 seeded windows + six whole leap-month years + 40 seeded year turns; thorough every date 0001..9998) logging officer, path spirit and mansion by two routes, six-day star, day nine star by two routes, phase, minor Ren; "
                "13 hour slots (incl. 0:xx and 23:xx) of seeded days, a third of them in the last ten days of December; year stars of years -1..9999 and month stars of every (year, month). "
                "Non-trivial: leap-month days, lunar month starts, Jian days, star turning points, 23:00 slots, late-December hours",
        "exhaustive": {"quick": False, "thorough": True},
        "assumptions": ["month pillar and lunar date of a day are the implementation's (C08, C02); solstice days are those of the term objects (C06)",
                        "at 23:xx the lunar hour view keeps its own lunar day for the hour star (pinned by the library's own test star::nine::test11) while the sexagenary view takes the next day's pillar; each is judged with the day it declares"],
        "level_text": "TLC checks the recurrence machine with free month boundaries (MC_Almanac: closed forms = recurrences for officer, path spirit, mansion/weekday, six-day star) and validates the real code on every walked day against the closed forms and the Tick clauses (+1 per day, officer repeated on a Jie day, six-day star restart at month number - 1), on hour slots, and on every year and month for the nine-star rules re-derived from the solstice days; thorough covers every date 0001..9998",
        "level_note": "trusted: Almanac.tla (rules stated from the classical mnemonics), TLC, harness logging",
        "technique": "TLA+ recurrence model checked with TLC + trace validation of day walks, hour slots, years and months",
    },
    "C18": {
        "title": "almanac lookup tables are total and well-formed for every pillar pair",
        "mc": {"quick": [{"module": "MC_AlmanacTables", "cfg": "MC_AlmanacTables.cfg", "workers": 2}]},
        "rule": "all 720 (month branch, day pillar) pairs for spirits and day activities, all 720 (day pillar, hour branch) pairs for hour activities, each queried twice in opposite orders and decoded independently from the raw table rows (guarded hook); all 151 spirits; the same lists through SixtyCycleDay/LunarDay/SixtyCycleHour/LunarHour of seeded days; kitchen-god numbers of sampled (quick) / all (thorough) lunar years -1..9999",
        "exhaustive": {"quick": False, "thorough": True},
        "assumptions": ["the almanac CONTENT (which spirit on which day) is data and is not judged; row layout (Yin month first for spirits, Zi first for activities) is taken from the lookup code"],
        "level_text": "TLC checks the table-lookup model (luck split, kitchen-god counts in range for every New Year's day pillar) and validates one Lookup event per pillar pair of the real code: the result equals the record decoded independently from the raw table, every index exists in its name list, every day has a spirit, recommended and avoided activities are disjoint, a repeated query returns the same lists; both tiers enumerate all 1,440 pairs and 151 spirits, thorough also all 10,001 years",
        "level_note": "trusted: AlmanacTables.tla, the guarded read-only hook exposing the raw tables, TLC, harness decoding (hex pairs)",
        "technique": "TLA+ lookup model checked with TLC + exhaustive trace validation of table lookups",
    },
    "C19": {
        "title": "stem and branch attributes match the classical correspondence rules",
        "mc": {"quick": [{"module": "MC_Cycles", "cfg": "MC_Cycles.cfg", "workers": 2}]},
        "rule": "76 attribute tables enumerated over their complete domains (10 stems, 12 branches, 10x10 / 10x12 / 12x12 pairs, 60 pillars, 5 elements, 9 directions, 366 month-days, 28 mansions, 9 stars, 12 spirits, 6 Ren, 1440 (year stem, month branch, hour branch) triples for own/body sign); every table is non-trivial and distinct",
        "exhaustive": {"quick": True, "thorough": True},
        "assumptions": ["the rules of spec/Cycles.tla are the classical ones (each is written next to the rhyme or table it encodes and checked for its structural laws by MC_Cycles); the own-sign branch follows the 'count the month back from Zi, the hour forward to Mao' procedure and the body-sign branch is month number + hour number counted from Yin"],
        "level_text": "TLC checks the first-principles rule module against its structural laws (involutions, inverse pairs, permutation rows, Nayin pairs, void branches, run-length tables: MC_Cycles over the sixty-cycle) and compares every attribute getter of the real code, enumerated over its complete finite domain, with the table generated from those rules; both tiers are exhaustive",
        "level_note": "trusted: Cycles.tla as the statement of the classical rules, TLC, harness enumeration; names enter only where the name is the attribute (Nayin element, star colour, first character of a Peng Zu sentence)",
        "technique": "TLA+ rule tables checked with TLC + exhaustive table comparison against the implementation",
    },
    "C20": {
        "title": "festival and legal-holiday lookups are consistent in both directions",
        "mc": {"quick": [{"module": "MC_Festival", "cfg": "MC_Festival.cfg", "workers": 2}]},
        "rule": "civil dates 1900-01-01..2100-12-31 (quick: the days around the ten festival dates + every 7th day; thorough: every date); civil festivals by index for 133 (quick) / all years 1..9998 with 9 step counts; "
                "lunar years 13 fixed + 50 seeded (quick) / all 1900..2100 + 1,500 seeded (thorough): the movable anchors, all 14 indices, every (quick: selected) lunar date, stepping; all 821 legal-holiday records (raw table parsed by the harness), membership of civil dates 1999..2031, seeded multi-step moves. "
                "Non-trivial: dates carrying a festival, founding-year edges, leap-month dates, records, steps",
        "exhaustive": {"quick": False, "thorough": False},
        "assumptions": ["the CONTENT of the legal-holiday table (which days are listed) is data: the raw pub static LEGAL_HOLIDAY_DATA is parsed by the harness as 13-character records and only its well-formedness and the lookups' agreement with it are judged",
                        "term days and lunar dates are the implementation's own (C02, C06)"],
        "level_text": "TLC checks the festival tables and the stepping carry of Festival.tla (MC_Festival) and validates the real code: the civil festival found on every date equals the table lookup and exists exactly from its founding year, festivals by index fall on their table day, the lunar festival found on a day is the earliest-listed one falling on it (fixed dates, Qingming and winter-solstice term days, New Year's Eve as last day of the year), stepping carries by floor division, every holiday record is a real date found for itself and for no other date, the record chain is strictly increasing in both directions, and every offset points at a rest day",
        "level_note": "trusted: Festival.tla tables (transcribed independently), Civil.tla, TLC, harness parsing of the raw holiday table",
        "technique": "TLA+ festival tables checked with TLC + trace validation of date->festival, index->festival, stepping and holiday-table lookups",
    },
}

NOT_APPLICABLE = {}

# Spec coverage BEYOND the listed properties (bin/check X01 ...).  Same machinery, but never part of MANIFEST.json: a
# deviation here is reported as "DEVIATION extra=..." and is not a verdict about any of C01-C20.
EXTRAS = {
    "X01": {
        "title": "naming layer: name and display string of every time unit are composed from its fields; name tables of 31 cycles",
        "mc": {},
        "rule": "the complete name table of 31 cycles; name and display string of 25 kinds of values on 1,500 (quick) / 40,000 (thorough) seeded days plus festival and day-series dates",
        "exhaustive": {"quick": False, "thorough": False},
        "assumptions": ["the pillars / indices a value reports are right (C07, C08, C09 decide that); only the composition of strings is checked here"],
        "level_text": "trace validation of names against Names.tla (tables of the classical lists, one composition operator per type)",
        "level_note": "not a listed property; the format rules are transcribed from observed behaviour, the name tables from the classical lists",
        "technique": "trace validation against Names.tla",
    },
    "X02": {
        "title": "rest of the public API: back references, order of lunar hours, deprecated pillar getters, Jupiter directions, foetus-day constructors, chart day officer, second eight-character strategy, fortunes' lunar years, enumerations",
        "mc": {},
        "rule": "4,000 (quick) / 120,000 (thorough) seeded days, each with an instant, an ordered pair of lunar hours and (one in four) a child limit; the five enumerations completely",
        "exhaustive": {"quick": False, "thorough": False},
        "assumptions": ["Jupiter-direction tables are transcribed from the upstream tables; every other clause relates two routes through the API"],
        "level_text": "trace validation against Extras.tla",
        "level_note": "not a listed property",
        "technique": "trace validation against Extras.tla",
    },
}
