//! C08 — year pillar turns at Lichun, month pillar at each Jie, by the Five-Tigers rule.  Producer of `Trace_C08`.
//!   d  : one civil day: year / month pillar of the sexagenary-day view, the governing term, the Lichun day
//!   tv : an instant (a second before / at / after a Jie instant, or random): year / month pillar of the
//!        instant-level view, the governing term and Lichun instant, and the day-level pillars of its day
//!   sm : one sexagenary month (year, ordinal): pillar, first day, stepping
//!   sy : one sexagenary year: first month, the twelve months
use tyme4rs::tyme::sixtycycle::{SixtyCycleMonth, SixtyCycleYear};
use tyme4rs::tyme::solar::{SolarDay, SolarTerm, SolarTime};
use tyme4rs::tyme::Tyme;

use crate::c01::ymd;
use crate::c06::{inst, term_time};
use crate::daywalk::*;
use crate::lib_util::*;
use crate::windows::*;

fn day_line(d: &SolarDay, first: bool, _p: Option<&SolarDay>) -> String {
  let (y, m, dd) = ymd(d);
  let j = jdn(d);
  let sd = catch_iso(|| d.get_sixty_cycle_day());
  let (yp, mp) = sd.as_ref().map(|s| (s.get_year().get_index() as i64, s.get_month().get_index() as i64)).unwrap_or((-1, -1));
  let mp2 = sd.as_ref().and_then(|s| catch_iso(|| s.get_sixty_cycle_month().get_sixty_cycle().get_index() as i64)).unwrap_or(-1);
  let sy = sd.as_ref().and_then(|s| catch_iso(|| s.get_sixty_cycle_month().get_sixty_cycle_year().get_year() as i64)).unwrap_or(-99999);
  let td = catch_iso(|| d.get_term_day());
  let (ti, tdi) = td.as_ref().map(|t| (t.get_solar_term().get_index() as i64, t.get_day_index() as i64)).unwrap_or((-1, -1));
  let li = catch_iso(|| jdn(&SolarTerm::from_index(y as isize, 3).get_julian_day().get_solar_day())).unwrap_or(-1);
  Ev::new("d").b("s", first).i("y", y).i("m", m).i("d", dd).i("j", j).b("ok", sd.is_some()).i("yp", yp).i("mp", mp).i("mp2", mp2).i("sy", sy).i("ti", ti).i("td", tdi).i("li", li).done()
}

fn time_line(q: &SolarTime, first: bool, off: i64) -> String {
  let y = q.get_year() as i64;
  let (qj, qs) = inst(q);
  let h = catch_iso(|| q.get_sixty_cycle_hour());
  let (yp, mp) = h.as_ref().map(|s| (s.get_year().get_index() as i64, s.get_month().get_index() as i64)).unwrap_or((-1, -1));
  let g = catch_iso(|| q.get_term());
  let gi = g.as_ref().map(|t| t.get_index() as i64).unwrap_or(-1);
  let lt = catch_iso(|| SolarTerm::from_index(y as isize, 3)).and_then(|t| term_time(&t));
  let (lj, ls) = lt.as_ref().map(inst).unwrap_or((-1, -1));
  let day = q.get_solar_day();
  let sd = catch_iso(|| day.get_sixty_cycle_day());
  let (dyp, dmp) = sd.as_ref().map(|s| (s.get_year().get_index() as i64, s.get_month().get_index() as i64)).unwrap_or((-1, -1));
  let td = catch_iso(|| day.get_term_day());
  let hasjie = td.as_ref().map(|t| t.get_day_index() == 0 && t.get_solar_term().is_jie()).unwrap_or(false);
  Ev::new("tv").b("s", first).i("y", y).i("qj", qj).i("qs", qs).i("off", off).b("ok", h.is_some()).i("yp", yp).i("mp", mp).i("gi", gi).i("lj", lj).i("ls", ls)
    .i("dyp", dyp).i("dmp", dmp).b("jieday", hasjie).done()
}

fn time_lines(ctx: &Ctx, tag: &str, years: Vec<i64>, salt: u64) -> usize {
  let mut sink = ctx.sink("Trace_C08", tag);
  sink.segment();
  let mut rng = ctx.rng(salt);
  let mut first = true;
  for y in years {
    for i in (1..24i64).step_by(2) {
      if ctx.quick() && (i / 2 + y) % 2 != 0 {
        continue;
      }
      let tt = match catch(|| SolarTerm::from_index(y as isize, i as isize)).and_then(|t| term_time(&t)) {
        Some(x) => x,
        None => continue,
      };
      for off in [-1i64, 0, 1, rng.range(2, 86400 * 14)] {
        if let Some(q) = catch(|| tt.next(off as isize)) {
          sink.put(time_line(&q, first, off));
          first = false;
        }
      }
    }
  }
  sink.total
}

fn month_lines(ctx: &Ctx, tag: &str, years: Vec<i64>) -> usize {
  let mut sink = ctx.sink("Trace_C08", tag);
  sink.segment();
  let mut first = true;
  for y in years {
    // the year record
    let sy = catch_iso(|| SixtyCycleYear::from_year(y as isize));
    let ypil = sy.as_ref().map(|s| s.get_sixty_cycle().get_index() as i64).unwrap_or(-1);
    let fm = sy.as_ref().and_then(|s| catch_iso(|| s.get_first_month().get_sixty_cycle().get_index() as i64)).unwrap_or(-1);
    let ms: Vec<i64> = sy.as_ref().and_then(|s| catch_iso(|| s.get_months())).map(|v| v.iter().map(|m| m.get_sixty_cycle().get_index() as i64).collect()).unwrap_or_default();
    let mys: Vec<i64> = sy.as_ref().and_then(|s| catch_iso(|| s.get_months())).map(|v| v.iter().map(|m| m.get_sixty_cycle_year().get_year() as i64).collect()).unwrap_or_default();
    sink.put(Ev::new("sy").b("s", first).i("y", y).i("yp", ypil).i("fm", fm).a("ms", &ms).a("mys", &mys).done());
    first = false;
    for k in 0..12i64 {
      let sm = catch_iso(|| SixtyCycleMonth::from_index(y as isize, k as isize));
      let mp = sm.as_ref().map(|m| m.get_sixty_cycle().get_index() as i64).unwrap_or(-1);
      let myp = sm.as_ref().map(|m| m.get_year().get_index() as i64).unwrap_or(-1);
      let idx = sm.as_ref().and_then(|m| catch_iso(|| m.get_index_in_year() as i64)).unwrap_or(-1);
      let fd = sm.as_ref().and_then(|m| catch_iso(|| jdn(&m.get_first_day().get_solar_day()))).unwrap_or(-1);
      let fdp = sm.as_ref().and_then(|m| catch_iso(|| m.get_first_day().get_month().get_index() as i64)).unwrap_or(-1);
      // the Jie day that must start this month
      let want = catch_iso(|| jdn(&SolarTerm::from_index(y as isize, 3 + 2 * k as isize).get_julian_day().get_solar_day())).unwrap_or(-1);
      let nx = sm.as_ref().and_then(|m| catch_iso(|| m.next(1))).map(|m| (m.get_sixty_cycle().get_index() as i64, m.get_sixty_cycle_year().get_year() as i64)).unwrap_or((-1, -99999));
      let pv = sm.as_ref().and_then(|m| catch_iso(|| m.next(-1))).map(|m| (m.get_sixty_cycle().get_index() as i64, m.get_sixty_cycle_year().get_year() as i64)).unwrap_or((-1, -99999));
      sink.put(Ev::new("sm").i("s", 0).i("y", y).i("o", k).i("mp", mp).i("yp", myp).i("idx", idx).i("fd", fd).i("fdp", fdp).i("want", want).a("nx", &[nx.0, nx.1]).a("pv", &[pv.0, pv.1]).done());
    }
  }
  sink.total
}

pub fn run(ctx: &Ctx) -> usize {
  let wins = day_windows(ctx, 801, 150, 200, 1);
  let a = walk_days(ctx, "Trace_C08", wins, day_line);
  let years: Vec<i64> = if ctx.quick() {
    let mut v: Vec<i64> = vec![1, 2, 3, 640, 641, 1582, 1583, 1644, 1960, 1984, 2023, 2024, 7275, 7276, 8716, 9493, 9997, 9998];
    let mut rng = ctx.rng(802);
    for _ in 0..400 {
      v.push(rng.range(2, 9998));
    }
    v
  } else {
    (1..=9998).collect()
  };
  let parts = deal(years, ctx.threads);
  let mut b = 0usize;
  std::thread::scope(|s| {
    let hs: Vec<_> = parts.into_iter().enumerate().map(|(t, p)| {
      s.spawn(move || time_lines(ctx, &format!("v{:02}", t), p.clone(), 8000 + t as u64) + month_lines(ctx, &format!("m{:02}", t), p))
    }).collect();
    for h in hs {
      b += h.join().unwrap();
    }
  });
  a + b
}
