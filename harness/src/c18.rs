//! C18 — almanac lookup tables are total and well-formed for every pillar pair.  Producer of `Trace_C18`.
//!   dg  : (month branch, day pillar): day spirits through the API (twice) and decoded from the raw table
//!   dt  : (month branch, day pillar): recommended / avoided activities, API and raw
//!   ht  : (day pillar, hour branch): recommended / avoided activities, API and raw
//!   god : one spirit and its luck class
//!   via : a sampled civil day / hour: the lists through the day and hour objects vs the table lookups
//!   kg  : one lunar year: the kitchen-god numbers and the New Year's day pillar they derive from
//!   tb  : one raw table row: record count and header coverage
use tyme4rs::tyme::culture::{verif_raw_tables, God, KitchenGodSteed, Taboo, GOD_NAMES, TABOO_NAMES};
use tyme4rs::tyme::jd::JulianDay;
use tyme4rs::tyme::lunar::{LunarDay, LunarYear};
use tyme4rs::tyme::sixtycycle::SixtyCycle;
use tyme4rs::tyme::solar::SolarTime;

use crate::lib_util::*;

fn pillar_with_branch(b: i64) -> SixtyCycle {
  let p = (0..60).find(|p| p % 12 == b).unwrap();
  SixtyCycle::from_index(p as isize)
}

/// hex pairs -> indices; a dangling character or a non-hex digit yields -1
fn pairs(s: &str) -> Vec<i64> {
  let c: Vec<char> = s.chars().collect();
  let mut v = Vec::new();
  let mut i = 0;
  while i < c.len() {
    if i + 1 >= c.len() {
      v.push(-1);
      break;
    }
    let t: String = c[i..i + 2].iter().collect();
    v.push(i64::from_str_radix(&t, 16).unwrap_or(-1));
    i += 2;
  }
  v
}

fn gods_api(m: &SixtyCycle, d: &SixtyCycle) -> Option<Vec<i64>> {
  catch(|| God::get_day_gods(m.clone(), d.clone()).iter().map(|g| g.get_index() as i64).collect())
}

fn idx(v: Vec<Taboo>) -> Vec<i64> {
  v.iter().map(|t| t.get_index() as i64).collect()
}

fn numeral(s: &str) -> i64 {
  // the kitchen-god sentences carry one or two Chinese numerals 1..12
  let names = ["一", "二", "三", "四", "五", "六", "七", "八", "九", "十", "十一", "十二"];
  // longest match first
  for (i, n) in names.iter().enumerate().rev() {
    if s.contains(n) {
      if i >= 10 {
        return i as i64 + 1;
      }
    }
  }
  if s.contains("十") {
    return 10;
  }
  for (i, n) in names.iter().enumerate().take(9) {
    if s.contains(n) {
      return i as i64 + 1;
    }
  }
  -1
}

pub fn run(ctx: &Ctx) -> usize {
  let mut sink = ctx.sink("Trace_C18", "tab");
  sink.segment();
  let (day_gods, day_taboo, hour_taboo) = verif_raw_tables();
  let mut first = true;
  let mut s1 = |first: &mut bool| {
    let r = *first;
    *first = false;
    r
  };
  // raw table rows: structure
  for row in 0..12usize {
    let recs: Vec<&str> = day_gods[row].split(';').collect();
    let lead_empty = recs.first().map(|r| r.is_empty()).unwrap_or(false);
    let heads: Vec<i64> = recs.iter().skip(1).map(|r| if r.len() >= 2 { i64::from_str_radix(&r[0..2], 16).unwrap_or(-1) } else { -1 }).collect();
    sink.put(Ev::new("tb").b("s", s1(&mut first)).i("t", 0).i("row", row as i64).b("lead", lead_empty).a("heads", &heads).i("n", recs.len() as i64 - 1).done());
    let n1 = day_taboo[row].split(';').count() as i64;
    let n2 = hour_taboo[row].split(';').count() as i64;
    let c1: Vec<i64> = day_taboo[row].split(';').take(60).map(|r| r.split(',').count() as i64).collect();
    let c2: Vec<i64> = hour_taboo[row].split(';').take(60).map(|r| r.split(',').count() as i64).collect();
    sink.put(Ev::new("tb").i("s", 0).i("t", 1).i("row", row as i64).b("lead", true).a("heads", &c1).i("n", n1).done());
    sink.put(Ev::new("tb").i("s", 0).i("t", 2).i("row", row as i64).b("lead", true).a("heads", &c2).i("n", n2).done());
  }
  // pair tables, queried in ascending order now and in descending order later (determinism)
  let mut second: Vec<(i64, i64, Vec<i64>, Vec<i64>, Vec<i64>, Vec<i64>, Vec<i64>)> = Vec::new();
  for mb in (0..12i64).rev() {
    for dp in (0..60i64).rev() {
      let m = pillar_with_branch(mb);
      let d = SixtyCycle::from_index(dp as isize);
      let h = pillar_with_branch(mb);
      second.push((
        mb,
        dp,
        gods_api(&m, &d).unwrap_or(vec![-999]),
        catch(|| idx(Taboo::get_day_recommends(m.clone(), d.clone()))).unwrap_or(vec![-999]),
        catch(|| idx(Taboo::get_day_avoids(m.clone(), d.clone()))).unwrap_or(vec![-999]),
        catch(|| idx(Taboo::get_hour_recommends(d.clone(), h.clone()))).unwrap_or(vec![-999]),
        catch(|| idx(Taboo::get_hour_avoids(d.clone(), h.clone()))).unwrap_or(vec![-999]),
      ));
    }
  }
  second.reverse();
  let mut k = 0;
  for mb in 0..12i64 {
    for dp in 0..60i64 {
      let m = pillar_with_branch(mb);
      let d = SixtyCycle::from_index(dp as isize);
      let prev = &second[k];
      k += 1;
      assert!(prev.0 == mb && prev.1 == dp);
      // spirits
      let g = gods_api(&m, &d);
      let row = ((mb - 2 + 12) % 12) as usize;
      let rec = day_gods[row].split(';').skip(1).find(|r| r.len() >= 2 && i64::from_str_radix(&r[0..2], 16).unwrap_or(-1) == dp);
      let raw = rec.map(|r| pairs(&r[2..])).unwrap_or(vec![-2]);
      let luck: Vec<i64> = catch(|| God::get_day_gods(m.clone(), d.clone()).iter().map(|x| x.get_luck().get_index() as i64).collect()).unwrap_or_default();
      sink.put(Ev::new("dg").i("s", 0).i("mb", mb).i("dp", dp).b("ok", g.is_some()).a("g", &g.unwrap_or_default()).a("g2", &prev.2).a("r", &raw).a("luck", &luck).done());
      // day activities
      let a = catch(|| idx(Taboo::get_day_recommends(m.clone(), d.clone())));
      let b = catch(|| idx(Taboo::get_day_avoids(m.clone(), d.clone())));
      let cell: Vec<&str> = day_taboo[mb as usize].split(';').nth(dp as usize).unwrap_or("").split(',').collect();
      let ra = cell.first().map(|x| pairs(x)).unwrap_or(vec![-2]);
      let rb = cell.get(1).map(|x| pairs(x)).unwrap_or(vec![-2]);
      sink.put(Ev::new("dt").i("s", 0).i("mb", mb).i("dp", dp).b("ok", a.is_some() && b.is_some()).a("a", &a.unwrap_or_default()).a("b", &b.unwrap_or_default())
        .a("a2", &prev.3).a("b2", &prev.4).a("ra", &ra).a("rb", &rb).done());
      // hour activities: (day pillar dp, hour branch mb)
      let h = pillar_with_branch(mb);
      let a = catch(|| idx(Taboo::get_hour_recommends(d.clone(), h.clone())));
      let b = catch(|| idx(Taboo::get_hour_avoids(d.clone(), h.clone())));
      let cell: Vec<&str> = hour_taboo[mb as usize].split(';').nth(dp as usize).unwrap_or("").split(',').collect();
      let ra = cell.first().map(|x| pairs(x)).unwrap_or(vec![-2]);
      let rb = cell.get(1).map(|x| pairs(x)).unwrap_or(vec![-2]);
      sink.put(Ev::new("ht").i("s", 0).i("hb", mb).i("dp", dp).b("ok", a.is_some() && b.is_some()).a("a", &a.unwrap_or_default()).a("b", &b.unwrap_or_default())
        .a("a2", &prev.5).a("b2", &prev.6).a("ra", &ra).a("rb", &rb).done());
    }
  }
  // spirits and their class; sizes of the name lists
  for i in 0..GOD_NAMES.len() as i64 {
    let g = God::from_index(i as isize);
    sink.put(Ev::new("god").i("s", 0).i("i", i).i("gi", g.get_index() as i64).i("luck", g.get_luck().get_index() as i64).i("size", GOD_NAMES.len() as i64).i("tsize", TABOO_NAMES.len() as i64).done());
  }
  // through the day / hour objects
  let mut rng = ctx.rng(1801);
  let n = if ctx.quick() { 2000 } else { 60000 };
  for _ in 0..n {
    let j = crate::windows::sample_day(&mut rng, 1721424 + 400, 5373484 - 800);
    let hh = rng.range(0, 23);
    let d = match catch_iso(|| JulianDay::from_julian_day(j as f64 - 0.5).get_solar_day()) {
      Some(d) => d,
      None => continue,
    };
    let sd = match catch_iso(|| d.get_sixty_cycle_day()) {
      Some(x) => x,
      None => continue,
    };
    let (m, dd) = (sd.get_month(), sd.get_sixty_cycle());
    let want_g = gods_api(&m, &dd).unwrap_or(vec![-999]);
    let want_a = catch(|| idx(Taboo::get_day_recommends(m.clone(), dd.clone()))).unwrap_or(vec![-999]);
    let want_b = catch(|| idx(Taboo::get_day_avoids(m.clone(), dd.clone()))).unwrap_or(vec![-999]);
    let g1: Vec<i64> = catch_iso(|| sd.get_gods().iter().map(|g| g.get_index() as i64).collect()).unwrap_or(vec![-998]);
    let a1 = catch_iso(|| idx(sd.get_recommends())).unwrap_or(vec![-998]);
    let b1 = catch_iso(|| idx(sd.get_avoids())).unwrap_or(vec![-998]);
    let ld: Option<LunarDay> = catch_iso(|| d.get_lunar_day());
    let g2: Vec<i64> = ld.as_ref().and_then(|l| catch_iso(|| l.get_gods().iter().map(|g| g.get_index() as i64).collect())).unwrap_or(vec![-998]);
    let a2 = ld.as_ref().and_then(|l| catch_iso(|| idx(l.get_recommends()))).unwrap_or(vec![-998]);
    let b2 = ld.as_ref().and_then(|l| catch_iso(|| idx(l.get_avoids()))).unwrap_or(vec![-998]);
    // hour objects
    let t = catch_iso(|| SolarTime::from_ymd_hms(d.get_year(), d.get_month(), d.get_day(), hh as usize, 10, 0));
    let sh = t.and_then(|t| catch_iso(|| t.get_sixty_cycle_hour()));
    let lh = t.and_then(|t| catch_iso(|| t.get_lunar_hour()));
    let (hd, hp) = sh.as_ref().map(|s| (s.get_day(), s.get_sixty_cycle())).unwrap_or((SixtyCycle::from_index(0), SixtyCycle::from_index(0)));
    let want_ha = catch(|| idx(Taboo::get_hour_recommends(hd.clone(), hp.clone()))).unwrap_or(vec![-999]);
    let want_hb = catch(|| idx(Taboo::get_hour_avoids(hd.clone(), hp.clone()))).unwrap_or(vec![-999]);
    let ha1 = sh.as_ref().and_then(|s| catch_iso(|| idx(s.get_recommends()))).unwrap_or(vec![-998]);
    let hb1 = sh.as_ref().and_then(|s| catch_iso(|| idx(s.get_avoids()))).unwrap_or(vec![-998]);
    let ha2 = lh.as_ref().and_then(|s| catch_iso(|| idx(s.get_recommends()))).unwrap_or(vec![-998]);
    let hb2 = lh.as_ref().and_then(|s| catch_iso(|| idx(s.get_avoids()))).unwrap_or(vec![-998]);
    // third route for the DAY lists: the lunar day handed out by the LunarHour after the hour has been asked its own views
    let hld = lh.as_ref().and_then(|h| catch_iso(|| h.get_lunar_day()));
    let g3: Vec<i64> = hld.as_ref().and_then(|l| catch_iso(|| l.get_gods().iter().map(|g| g.get_index() as i64).collect())).unwrap_or(vec![-998]);
    let a3 = hld.as_ref().and_then(|l| catch_iso(|| idx(l.get_recommends()))).unwrap_or(vec![-998]);
    let b3 = hld.as_ref().and_then(|l| catch_iso(|| idx(l.get_avoids()))).unwrap_or(vec![-998]);
    sink.put(Ev::new("via").i("s", 0).i("j", j).i("hh", hh).a("g3", &g3).a("a3", &a3).a("b3", &b3).a("wg", &want_g).a("g1", &g1).a("g2", &g2).a("wa", &want_a).a("a1", &a1).a("a2", &a2).a("wb", &want_b).a("b1", &b1).a("b2", &b2)
      .a("wha", &want_ha).a("ha1", &ha1).a("ha2", &ha2).a("whb", &want_hb).a("hb1", &hb1).a("hb2", &hb2).done());
  }
  // kitchen god
  let years: Vec<i64> = if false {
    let mut v: Vec<i64> = vec![-1, 0, 1, 2, 9, 24, 240, 1582, 2017, 2023, 2024, 9998, 9999];
    for _ in 0..400 {
      v.push(rng.range(0, 9999));
    }
    v
  } else {
    (-1..=9999).collect()
  };
  for y in years {
    let kg: Option<KitchenGodSteed> = catch_iso(|| LunarYear::from_year(y as isize).get_kitchen_god_steed());
    let p = catch_iso(|| LunarDay::from_ymd(y as isize, 1, 1).get_sixty_cycle().get_index() as i64).unwrap_or(-1);
    let v: Vec<i64> = match &kg {
      Some(k) => {
        // branch-based: mouse 0, grass 0, cattle 1, flower 3, dragon 4, horse 6, chicken 9, silkworm 9, pig 11; stem-based: field 0, cake 2, gold 7
        let pc = k.get_people_cakes();
        let ph = k.get_people_hoes();
        let split = |s: &str, sep: char| -> (i64, i64) {
          let parts: Vec<&str> = s.split(sep).collect();
          (numeral(parts[0]), numeral(parts.get(1).unwrap_or(&"")))
        };
        let (pc1, pc2) = split(&pc, '人');
        let (ph1, ph2) = split(&ph, '人');
        vec![numeral(&k.get_mouse()), numeral(&k.get_grass()), numeral(&k.get_cattle()), numeral(&k.get_flower()), numeral(&k.get_dragon()), numeral(&k.get_horse()), numeral(&k.get_chicken()),
          numeral(&k.get_silkworm()), numeral(&k.get_pig()), numeral(&k.get_field()), numeral(&k.get_cake()), numeral(&k.get_gold()), pc1, pc2, ph1, ph2]
      }
      None => vec![],
    };
    sink.put(Ev::new("kg").i("s", 0).i("y", y).b("ok", kg.is_some()).i("p", p).a("v", &v).done());
  }
  sink.total
}
