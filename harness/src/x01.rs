//! X01 (beyond the listed properties) — the naming layer.  Producer of `Trace_X01`:
//!   cn : the complete name table of one cycle (names by index 0..size-1)
//!   nm : one value of one time unit: its integer fields, its name (Culture::get_name) and its display string
use tyme4rs::tyme::culture::dog::Dog;
use tyme4rs::tyme::culture::nine::Nine;
use tyme4rs::tyme::culture::phenology::ThreePhenology;
use tyme4rs::tyme::culture::plumrain::PlumRain;
use tyme4rs::tyme::culture::ren::minor::MinorRen;
use tyme4rs::tyme::culture::star::nine::{Dipper, NineStar};
use tyme4rs::tyme::culture::star::seven::SevenStar;
use tyme4rs::tyme::culture::star::six::SixStar;
use tyme4rs::tyme::culture::star::ten::TenStar;
use tyme4rs::tyme::culture::star::twelve::{Ecliptic, TwelveStar};
use tyme4rs::tyme::culture::star::twenty_eight::TwentyEightStar;
use tyme4rs::tyme::culture::*;
use tyme4rs::tyme::festival::{LunarFestival, SolarFestival};
use tyme4rs::tyme::jd::JulianDay;
use tyme4rs::tyme::lunar::{LunarDay, LunarSeason};
use tyme4rs::tyme::sixtycycle::{EarthBranch, HeavenStem, SixtyCycle};
use tyme4rs::tyme::solar::{SolarDay, SolarTerm, SolarTime};
use tyme4rs::tyme::{Culture, Tyme};

use crate::lib_util::*;

macro_rules! cycle {
  ($sink:expr, $ty:ty, $id:expr) => {{
    let size = <$ty>::from_index(0).get_size() as isize;
    let names: Vec<String> = (0..size).map(|i| catch(|| <$ty>::from_index(i).get_name()).unwrap_or_else(|| "<panic>".to_string())).collect();
    let disp: Vec<String> = (0..size).map(|i| catch(|| <$ty>::from_index(i).to_string()).unwrap_or_else(|| "<panic>".to_string())).collect();
    $sink.put(Ev::new("cn").i("s", 0).s("t", $id).i("size", size as i64).sa("names", &names).sa("disp", &disp).done());
  }};
}

fn nm(sink: &mut Sink, t: &str, f: &[i64], name: Option<String>, disp: Option<String>) {
  let bad = || "<panic>".to_string();
  sink.put(Ev::new("nm").i("s", 0).s("t", t).a("f", f).s("n", &name.unwrap_or_else(bad)).s("ds", &disp.unwrap_or_else(bad)).done());
}

macro_rules! both {
  ($sink:expr, $t:expr, $f:expr, $v:expr) => {{
    let v = $v;
    nm($sink, $t, $f, catch(|| v.get_name()), catch(|| v.to_string()));
  }};
}

fn day(sink: &mut Sink, rng: &mut Rng, d: &SolarDay) {
  let (y, m, dd) = (d.get_year() as i64, d.get_month() as i64, d.get_day() as i64);
  both!(sink, "SolarDay", &[y, m, dd], d);
  let mo = d.get_solar_month();
  both!(sink, "SolarMonth", &[y, m], &mo);
  both!(sink, "SolarYear", &[y], &mo.get_solar_year());
  let se = mo.get_season();
  both!(sink, "SolarSeason", &[y, se.get_index() as i64], &se);
  let hy = se.get_solar_year().get_half_years()[(m as usize - 1) / 6].clone();
  both!(sink, "SolarHalfYear", &[y, hy.get_index() as i64], &hy);
  let start = rng.range(0, 6) as usize;
  if let Some(w) = catch(|| d.get_solar_week(start)) {
    both!(sink, "SolarWeek", &[w.get_year() as i64, w.get_month() as i64, w.get_index() as i64], &w);
  }
  let (h, mi, s) = (rng.range(0, 23), rng.range(0, 59), rng.range(0, 59));
  let t = SolarTime::from_ymd_hms(y as isize, m as usize, dd as usize, h as usize, mi as usize, s as usize);
  both!(sink, "SolarTime", &[y, m, dd, h, mi, s], &t);
  if let Some(td) = catch_iso(|| d.get_term_day()) {
    let ti = td.get_solar_term().get_index() as i64;
    both!(sink, "SolarTermDay", &[ti, td.get_day_index() as i64], &td);
    both!(sink, "SolarTerm", &[ti], &td.get_solar_term());
  }
  // lunar side
  if let Some(l) = catch_iso(|| d.get_lunar_day()) {
    let lm = l.get_lunar_month();
    let ly = lm.get_lunar_year();
    let yp = ly.get_sixty_cycle().get_index() as i64;
    let mw = lm.get_month_with_leap() as i64;
    both!(sink, "LunarYear", &[yp], &ly);
    both!(sink, "LunarMonth", &[yp, mw], &lm);
    both!(sink, "LunarDay", &[yp, mw, l.get_day() as i64], &l);
    if let Some(lw) = catch_iso(|| lm.get_weeks(start)).and_then(|ws| ws.into_iter().find(|w| w.get_days().iter().any(|x| *x == l))) {
      // a week straddling a month border is named by the month that lists it
      let wm = lw.get_lunar_month();
      both!(sink, "LunarWeek", &[wm.get_lunar_year().get_sixty_cycle().get_index() as i64, wm.get_month_with_leap() as i64, lw.get_index() as i64], &lw);
    }
    if let Some(lh) = catch_iso(|| t.get_lunar_hour()) {
      let hp = catch_iso(|| lh.get_sixty_cycle().get_index() as i64).unwrap_or(-1);
      let ld = lh.get_lunar_day();
      let lmo = ld.get_lunar_month();
      both!(sink, "LunarHour", &[lmo.get_lunar_year().get_sixty_cycle().get_index() as i64, lmo.get_month_with_leap() as i64, ld.get_day() as i64, h, hp], &lh);
    }
    if let Some(f) = catch_iso(|| l.get_festival()).flatten() {
      let fd = f.get_day();
      let fm = fd.get_lunar_month();
      both!(sink, "LunarFestival", &[fm.get_lunar_year().get_sixty_cycle().get_index() as i64, fm.get_month_with_leap() as i64, fd.get_day() as i64, f.get_index() as i64], &f);
    }
  }
  // sexagenary side
  if let Some(sd) = catch_iso(|| d.get_sixty_cycle_day()) {
    let (yp, mp, dp) = (sd.get_year().get_index() as i64, sd.get_month().get_index() as i64, sd.get_sixty_cycle().get_index() as i64);
    both!(sink, "SixtyCycleDay", &[yp, mp, dp], &sd);
    let sm = sd.get_sixty_cycle_month();
    both!(sink, "SixtyCycleMonth", &[sm.get_year().get_index() as i64, sm.get_sixty_cycle().get_index() as i64], &sm);
    let sy = sm.get_sixty_cycle_year();
    both!(sink, "SixtyCycleYear", &[sy.get_sixty_cycle().get_index() as i64], &sy);
  }
  if let Some(sh) = catch_iso(|| t.get_sixty_cycle_hour()) {
    let f = [sh.get_year().get_index() as i64, sh.get_month().get_index() as i64, sh.get_day().get_index() as i64, sh.get_sixty_cycle().get_index() as i64];
    both!(sink, "SixtyCycleHour", &f, &sh);
    let e = sh.get_eight_char();
    let g = [e.get_year().get_index() as i64, e.get_month().get_index() as i64, e.get_day().get_index() as i64, e.get_hour().get_index() as i64];
    both!(sink, "EightChar", &g, &e);
  }
  // day series
  if let Some(Some(x)) = catch_iso(|| d.get_nine_day()) {
    both!(sink, "NineDay", &[x.get_nine().get_index() as i64, x.get_day_index() as i64], &x);
  }
  if let Some(Some(x)) = catch_iso(|| d.get_dog_day()) {
    both!(sink, "DogDay", &[x.get_dog().get_index() as i64, x.get_day_index() as i64], &x);
  }
  if let Some(Some(x)) = catch_iso(|| d.get_plum_rain_day()) {
    both!(sink, "PlumRainDay", &[x.get_plum_rain().get_index() as i64, x.get_day_index() as i64], &x);
  }
  if let Some(x) = catch_iso(|| d.get_hide_heaven_stem_day()) {
    let st = x.get_hide_heaven_stem().get_heaven_stem();
    both!(sink, "HideHeavenStemDay", &[st.get_index() as i64, st.get_element().get_index() as i64, x.get_day_index() as i64], &x);
  }
  if let Some(x) = catch_iso(|| d.get_phenology_day()) {
    both!(sink, "PhenologyDay", &[x.get_phenology().get_index() as i64, x.get_day_index() as i64], &x);
  }
  if let Some(x) = catch_iso(|| d.get_hide_heaven_stem_day()) {
    let hh = x.get_hide_heaven_stem();
    both!(sink, "HideHeavenStem", &[hh.get_heaven_stem().get_index() as i64], &hh);
  }
  if let Some(Some(hd)) = catch_iso(|| d.get_legal_holiday()) {
    let nm = hd.get_name();
    let idx = tyme4rs::tyme::holiday::LEGAL_HOLIDAY_NAMES.iter().position(|n| *n == nm).map(|i| i as i64).unwrap_or(-1);
    let hdd = hd.get_day();
    both!(sink, "LegalHoliday", &[hdd.get_year() as i64, hdd.get_month() as i64, hdd.get_day() as i64, hd.is_work() as i64, idx], &hd);
  }
  if let Some(sdv) = catch_iso(|| d.get_sixty_cycle_day()) {
    let fd = sdv.get_fetus_day();
    let f = [fd.get_fetus_heaven_stem().get_index() as i64, fd.get_fetus_earth_branch().get_index() as i64, if fd.get_side() == tyme4rs::tyme::enums::Side::IN { 0 } else { 1 }, fd.get_direction().get_index() as i64];
    nm(sink, "FetusDay", &f, catch(|| fd.to_string()), catch(|| fd.to_string())); // FetusDay::get_name is private: the display string is its name
  }
  if y >= 2 && y <= 9880 && rng.range(0, 7) == 0 {
    if let Some(cl) = catch_iso(|| tyme4rs::tyme::eightchar::ChildLimit::from_solar_time(t, tyme4rs::tyme::enums::Gender::MAN)) {
      let k = rng.range(0, 8) as isize;
      if let Some(df) = catch_iso(|| cl.get_start_decade_fortune().next(k)) {
        nm(sink, "DecadeFortune", &[df.get_sixty_cycle().get_index() as i64], catch(|| df.get_name()), catch(|| df.get_name()));
      }
      if let Some(fo) = catch_iso(|| cl.get_start_fortune().next(k)) {
        nm(sink, "Fortune", &[fo.get_sixty_cycle().get_index() as i64], catch(|| fo.get_name()), catch(|| fo.get_name()));
      }
    }
    let ks = tyme4rs::tyme::lunar::LunarYear::from_year(y as isize).get_kitchen_god_steed();
    both!(sink, "KitchenGodSteed", &[y], &ks);
  }
  if let Some(Some(f)) = catch_iso(|| d.get_festival()) {
    let fd = f.get_day();
    both!(sink, "SolarFestival", &[fd.get_year() as i64, fd.get_month() as i64, fd.get_day() as i64, f.get_index() as i64], &f);
  }
}

pub fn run(ctx: &Ctx) -> usize {
  let mut sink = ctx.sink("Trace_X01", "names");
  sink.segment();
  sink.put(Ev::new("begin").i("s", 1).done());
  cycle!(sink, HeavenStem, "HeavenStem");
  cycle!(sink, EarthBranch, "EarthBranch");
  cycle!(sink, SixtyCycle, "SixtyCycle");
  cycle!(sink, Zodiac, "Zodiac");
  cycle!(sink, Element, "Element");
  cycle!(sink, Week, "Week");
  cycle!(sink, Duty, "Duty");
  cycle!(sink, TwelveStar, "TwelveStar");
  cycle!(sink, TwentyEightStar, "TwentyEightStar");
  cycle!(sink, SevenStar, "SevenStar");
  cycle!(sink, SixStar, "SixStar");
  cycle!(sink, MinorRen, "MinorRen");
  cycle!(sink, TenStar, "TenStar");
  cycle!(sink, Terrain, "Terrain");
  cycle!(sink, Direction, "Direction");
  cycle!(sink, Zone, "Zone");
  cycle!(sink, Beast, "Beast");
  cycle!(sink, Luck, "Luck");
  cycle!(sink, NineStar, "NineStar");
  cycle!(sink, Dipper, "Dipper");
  cycle!(sink, Constellation, "Constellation");
  cycle!(sink, Sound, "Sound");
  cycle!(sink, LunarSeason, "LunarSeason");
  cycle!(sink, Nine, "Nine");
  cycle!(sink, Dog, "Dog");
  cycle!(sink, PlumRain, "PlumRain");
  cycle!(sink, ThreePhenology, "ThreePhenology");
  cycle!(sink, Twenty, "Twenty");
  cycle!(sink, Sixty, "Sixty");
  cycle!(sink, Ecliptic, "Ecliptic");
  cycle!(sink, Ten, "Ten");
  // values: seeded days over the whole range (after AD 260: the reform seams are C02 findings), every festival of a few years,
  // the summer / winter series of a few years
  let mut rng = ctx.rng(7100);
  let n = if ctx.quick() { 1500 } else { 40000 };
  for _ in 0..n {
    let j = rng.range(1816000, 5373484 - 800);
    if let Some(d) = catch(|| JulianDay::from_julian_day(j as f64 - 0.5).get_solar_day()) {
      day(&mut sink, &mut rng, &d);
    }
  }
  let years: Vec<i64> = if ctx.quick() { vec![1950, 1985, 2024, 2033] } else { (1900..2100).collect() };
  for y in years {
    for i in 0..10 {
      if let Some(Some(f)) = catch(|| SolarFestival::from_index(y as isize, i)) {
        day(&mut sink, &mut rng, &f.get_day());
      }
    }
    for i in 0..13 {
      if let Some(Some(f)) = catch_iso(|| LunarFestival::from_index(y as isize, i)) {
        if let Some(d) = catch_iso(|| f.get_day().get_solar_day()) {
          day(&mut sink, &mut rng, &d);
        }
      }
    }
    // around the plum rains and dog days, and the nines
    for (m, dd) in [(6i64, 5i64), (7, 10), (8, 15), (12, 25), (1, 20)] {
      for k in 0..12 {
        if let Some(d) = catch(|| SolarDay::from_ymd(y as isize, m as usize, dd as usize).next(k * 4)) {
          day(&mut sink, &mut rng, &d);
        }
      }
    }
  }
  // legal holidays (tabulated for 2001..): every day of the first week of May and October and around the new year
  let hy: Vec<i64> = if ctx.quick() { vec![2002, 2015, 2020, 2024] } else { (2001..2027).collect() };
  for y in hy {
    for (m, d0) in [(1i64, 1i64), (2, 1), (4, 1), (4, 25), (5, 1), (6, 5), (9, 10), (9, 25), (10, 1), (12, 28)] {
      for k in 0..10 {
        if let Some(d) = catch(|| SolarDay::from_ymd(y as isize, m as usize, d0 as usize).next(k)) {
          day(&mut sink, &mut rng, &d);
        }
      }
    }
  }
  let _ = (SolarTerm::from_index(2024, 0), LunarDay::from_ymd(2024, 1, 1));
  sink.total
}
