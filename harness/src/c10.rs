//! C10 — answers do not depend on call history, interleaving or earlier refusals.  Producer of `Trace_C10`.
//!   h   : one step of a TLC-generated history (Mode C replay): answer, cold-path answer, poison flag
//!   ce  : memo event from the guarded hooks, in lock order (hit / miss / fill / refuse)
//!   ret : one from_ym call of a thread run with its cold-path answer
//!   q   : one query of a long mixed history: answer in the warm process vs answer of a FRESH process
//!   lz  : one getter order on a LunarDay / LunarHour value vs the answers of fresh values
use std::io::{BufRead, BufReader};
use std::process::Command;

use tyme4rs::tyme::lunar::verif_hooks as hooks;
use tyme4rs::tyme::lunar::{LunarDay, LunarHour, LunarMonth};
use tyme4rs::tyme::{Culture, Tyme};

use crate::lib_util::*;
use crate::queries::*;

const REFUSED5: [i64; 5] = [-99, 0, 0, 0, 0];

fn from_ym5(y: i64, m: i64) -> (bool, Vec<i64>) {
  match catch(|| LunarMonth::from_ym(y as isize, m as isize)) {
    Some(mm) => (true, month5(&mm)),
    None => (false, REFUSED5.to_vec()),
  }
}

fn cold5(y: i64, m: i64) -> (bool, Vec<i64>) {
  match catch(|| LunarMonth::new(y as isize, m as isize)) {
    Some(Ok(mm)) => (true, month5(&mm)),
    _ => (false, REFUSED5.to_vec()),
  }
}

fn val5(v: &[f64]) -> Vec<i64> {
  if v.len() == 5 {
    vec![v[0] as i64, v[1] as i64, v[2] as i64, v[3] as i64, jdn_of(v[4]).0]
  } else {
    vec![0, 0, 0, 0, 0]
  }
}

static QUICK: std::sync::atomic::AtomicBool = std::sync::atomic::AtomicBool::new(true);

fn dump_hooks(sink: &mut Sink, first: bool) {
  let mut evs = hooks::take();
  evs.sort_by_key(|e| e.seq);
  let base = evs.first().map(|e| e.seq).unwrap_or(0);
  // the trace spec carries the memo as a function, so its cost grows with the square of the number of fills: a stretch is
  // validated up to its 10,000th fill / 60,000th event in the quick tier, 30,000th / 150,000th in the thorough tier (more than
  // twice what any stretch of the unchanged library needs);
  // what a runaway history did before that point is still checked event by event
  let mut fills = 0usize;
  for (n, e) in evs.iter().enumerate() {
    let (cf, ce) = if QUICK.load(std::sync::atomic::Ordering::Relaxed) { (10_000, 60_000) } else { (30_000, 150_000) };
    if fills > cf || n > ce {
      sink.put(Ev::new("ce").i("s", 0).i("seq", (e.seq - base) as i64).i("th", e.thread as i64).s("op", "cut").s("key", "").i("y", 0).i("m", 0).a("v", &[0, 0, 0, 0, 0]).done());
      break;
    }
    if e.kind == "fill" {
      fills += 1;
    }
    sink.put(Ev::new("ce").b("s", first && n == 0).i("seq", (e.seq - base) as i64).i("th", e.thread as i64).s("op", e.kind).s("key", &e.key)
      .i("y", e.year as i64).i("m", e.month as i64).a("v", &val5(&e.value)).done());
  }
}

fn ints(line: &str) -> Vec<i64> {
  let mut v = Vec::new();
  let mut cur = String::new();
  for c in line.chars() {
    if c == '-' || c.is_ascii_digit() {
      cur.push(c);
    } else if !cur.is_empty() {
      if let Ok(x) = cur.parse() {
        v.push(x);
      }
      cur.clear();
    }
  }
  if let Ok(x) = cur.parse() {
    v.push(x);
  }
  v
}

/// Mode C: replay every TLC-generated history after a memo reset
fn histories(ctx: &Ctx) -> usize {
  let mut sink = ctx.sink("Trace_C10", "hist");
  let mut hsink = ctx.sink("Trace_C10", "histce");
  let path = match &ctx.cases {
    Some(p) => p.clone(),
    None => return 0,
  };
  let f = BufReader::new(std::fs::File::open(path).unwrap());
  let mut hid = 0i64;
  for line in f.lines() {
    let line = line.unwrap();
    if !line.contains("\"h\"") {
      continue;
    }
    let v = ints(&line);
    if v.is_empty() || v.len() % 3 != 0 {
      continue;
    }
    hid += 1;
    cache_reset();
    hooks::install();
    sink.segment();
    for (i, st) in v.chunks(3).enumerate() {
      let (y, m, exp) = (st[0], st[1], st[2]);
      let (ok, r) = from_ym5(y, m);
      let pois = hooks::cache_poisoned();
      let nk = if pois { -1 } else { hooks::cache_entries().len() as i64 };
      let (cok, c) = cold5(y, m);
      sink.put(Ev::new("h").b("s", i == 0).i("hid", hid).i("i", i as i64).i("y", y).i("m", m).i("exp", exp).b("ok", ok).a("r", &r).b("cok", cok).a("c", &c).b("pois", pois).i("nk", nk).done());
    }
    hsink.segment();
    dump_hooks(&mut hsink, true);
  }
  cache_reset();
  sink.total + hsink.total
}

/// every colliding pair {(y,11),(10y+1,1)}, {(y,12),(10y+1,2)} in both orders, each after a reset
fn collisions(ctx: &Ctx) -> usize {
  let mut sink = ctx.sink("Trace_C10", "coll");
  let mut hid = 1_000_000i64;
  let ys: Vec<i64> = if ctx.quick() { (1..=999).step_by(3).collect() } else { (1..=999).collect() };
  for y in ys {
    for (ma, mb) in [(11i64, 1i64), (12, 2)] {
      for order in 0..2 {
        let a = (y, ma);
        let b = (10 * y + 1, mb);
        let seq = if order == 0 { [a, b, a] } else { [b, a, b] };
        hid += 1;
        cache_reset();
        sink.segment();
        for (i, (yy, mm)) in seq.iter().enumerate() {
          let (ok, r) = from_ym5(*yy, *mm);
          let pois = hooks::cache_poisoned();
          let (cok, c) = cold5(*yy, *mm);
          sink.put(Ev::new("h").b("s", i == 0).i("hid", hid).i("i", i as i64).i("y", *yy).i("m", *mm).i("exp", cok as i64).b("ok", ok).a("r", &r).b("cok", cok).a("c", &c).b("pois", pois).i("nk", -2).done());
        }
      }
    }
  }
  cache_reset();
  sink.total
}

/// every label (valid or not: months -12..13) of a window of consecutive years, twice, in seeded random order, in ONE
/// warm process: whatever the memo key is, two labels that share it meet here
fn pools(ctx: &Ctx) -> usize {
  let mut sink = ctx.sink("Trace_C10", "pool");
  let mut hsink = ctx.sink("Trace_C10", "poolce");
  let mut rng = ctx.rng(7500);
  // fixed windows: the range ends, the two reform periods (years 8-25 and 236-240: irregular months such as the 28-day
  // 236-12 live there), decade borders, the calendar switch
  let mut starts: Vec<i64> = vec![0, 5, 16, 95, 230, 995, 1570, 2015, 3350, 9960, 9985];
  let extra = if ctx.quick() { 6 } else { 120 };
  for _ in 0..extra {
    starts.push(rng.range(1, 9970));
  }
  let mut hid = 2_000_000i64;
  for y0 in starts {
    let span = 14;
    let mut reqs: Vec<(i64, i64)> = Vec::new();
    for rep in 0..2 {
      for y in y0..(y0 + span) {
        for m in -12..=13i64 {
          let _ = rep;
          reqs.push((y, m));
        }
      }
    }
    // ... and month numbers far outside -12..13 (refused, whatever the memo already holds: a key computed by arithmetic
    // on (year, month) must not let such a request alias a valid label of a neighbouring year)
    for y in y0..(y0 + span) {
      for _ in 0..6 {
        let m = rng.range(14, 300) * if rng.range(0, 1) == 0 { 1 } else { -1 };
        reqs.push((y, m));
      }
    }
    // Fisher-Yates with the seeded generator
    for i in (1..reqs.len()).rev() {
      let j = rng.range(0, i as i64) as usize;
      reqs.swap(i, j);
    }
    hid += 1;
    cache_reset();
    hooks::install();
    sink.segment();
    for (i, (y, m)) in reqs.iter().enumerate() {
      let (ok, r) = from_ym5(*y, *m);
      let pois = hooks::cache_poisoned();
      let (cok, c) = cold5(*y, *m);
      sink.put(Ev::new("h").b("s", i == 0).i("hid", hid).i("i", i as i64).i("y", *y).i("m", *m).i("exp", cok as i64).b("ok", ok).a("r", &r).b("cok", cok).a("c", &c).b("pois", pois).i("nk", -2).done());
    }
    hsink.segment();
    dump_hooks(&mut hsink, true);
  }
  cache_reset();
  sink.total + hsink.total
}

/// 16 OS threads issuing overlapping requests (valid, colliding and invalid), hook events in lock order
fn threads(ctx: &Ctx) -> usize {
  let mut sink = ctx.sink("Trace_C10", "thr");
  let mut rsink = ctx.sink("Trace_C10", "thrret");
  let rounds = if ctx.quick() { 6 } else { 60 };
  let per_thread = if ctx.quick() { 60 } else { 200 };
  for round in 0..rounds {
    cache_reset();
    hooks::install();
    let mut rng = ctx.rng(7000 + round as u64);
    // a small shared pool so that threads really overlap on keys
    let base = rng.range(30, 900);
    let pool: Vec<(i64, i64)> = vec![(base, 11), (10 * base + 1, 1), (base, 12), (10 * base + 1, 2), (base + 1, 1), (base + 1, 13), (base + 2, -5), (base + 1, 5), (10001, 1), (base, 0), (base + 3, 7), (base + 3, 8)];
    let rets: Vec<Vec<String>> = std::thread::scope(|s| {
      let hs: Vec<_> = (0..16u64).map(|t| {
        let pool = pool.clone();
        let mut trng = Rng::new(ctx.seed ^ (round as u64 * 131 + t));
        s.spawn(move || {
          hooks::set_thread(t + 1);
          let mut out = Vec::new();
          for _ in 0..per_thread {
            let (y, m) = *trng.pick(&pool);
            let (ok, r) = from_ym5(y, m);
            let (cok, c) = cold5(y, m);
            out.push(Ev::new("ret").i("s", 1).i("th", t as i64 + 1).i("y", y).i("m", m).b("ok", ok).a("r", &r).b("cok", cok).a("c", &c).done());
          }
          out
        })
      }).collect();
      hs.into_iter().map(|h| h.join().unwrap()).collect()
    });
    sink.segment();
    dump_hooks(&mut sink, true);
    rsink.segment();
    for t in rets {
      for l in t {
        rsink.put(l);
      }
    }
  }
  hooks::set_thread(0);
  cache_reset();
  sink.total + rsink.total
}

/// the process-wide child-limit strategy under concurrent faults: eight threads keep issuing births that are refused inside
/// the strategy (start of luck beyond year 9999) while eight threads issue valid births; every valid request must return
/// what the same request returns afterwards, alone
fn threads_strategy(ctx: &Ctx) -> usize {
  let mut sink = ctx.sink("Trace_C10", "thrq");
  let rounds = if ctx.quick() { 4 } else { 16 };
  let per = if ctx.quick() { 2000 } else { 3000 };
  sink.segment();
  for round in 0..rounds {
    let rets: Vec<Vec<(Vec<i64>, Vec<i64>)>> = std::thread::scope(|s| {
      let hs: Vec<_> = (0..16u64).map(|t| {
        let mut trng = Rng::new(ctx.seed ^ (0xC10 + round as u64 * 977 + t));
        s.spawn(move || {
          let mut out = Vec::new();
          for _ in 0..per {
            if t < 8 {
              // refused inside the strategy: births of the last supported years
              let a = vec![trng.range(5373484 - 1200, 5373484 - 10), trng.range(0, 23), trng.range(0, 59), trng.range(0, 59), trng.range(0, 1)];
              let _ = answer(9, &a);
            } else {
              let a = vec![trng.range(1721424 + 12000, 5373484 - 5000), trng.range(0, 23), trng.range(0, 59), trng.range(0, 59), trng.range(0, 1)];
              let w = answer(9, &a);
              out.push((a, w));
            }
          }
          out
        })
      }).collect();
      hs.into_iter().map(|h| h.join().unwrap()).collect()
    });
    // the same requests again, one by one, with nothing running beside them
    for t in rets {
      for (a, w) in t {
        let c = answer(9, &a);
        sink.put(Ev::new("q").i("s", 1).i("fam", 9).a("a", &a).a("w", &w).a("c", &c).done());
      }
    }
  }
  sink.total
}

/// the leap month of every lunar year: the warm process against five fresh processes (a table decoded into a hash map
/// must not let the iteration order of one process decide an answer)
fn leap_table(ctx: &Ctx) -> usize {
  let mut sink = ctx.sink("Trace_C10", "leap");
  sink.segment();
  let a = vec![-1i64, 9999];
  let w = answer(19, &a);
  let n = if ctx.quick() { 5 } else { 12 };
  let cs: Vec<Vec<i64>> = std::thread::scope(|s| {
    let hs: Vec<_> = (0..n).map(|_| { let a = a.clone(); s.spawn(move || { let c = fresh_answer(19, &a); tick(); c }) }).collect();
    hs.into_iter().map(|h| h.join().unwrap()).collect()
  });
  for (k, c) in cs.iter().enumerate() {
    // one event per block of 500 years so that a difference is reported with its years
    for b in 0..21usize {
      let lo = b * 500;
      let hi = ((b + 1) * 500).min(w.len());
      if lo >= hi {
        break;
      }
      let cw: Vec<i64> = if c.len() == w.len() { c[lo..hi].to_vec() } else { c.clone() };
      sink.put(Ev::new("q").i("s", 1).i("fam", 19).a("a", &[lo as i64 - 1, hi as i64 - 2, k as i64]).a("w", &w[lo..hi]).a("c", &cw).done());
    }
  }
  sink.total
}

fn fresh_answer(fam: i64, a: &[i64]) -> Vec<i64> {
  let exe = std::env::current_exe().unwrap();
  let mut cmd = Command::new(exe);
  cmd.arg("ask").arg(fam.to_string());
  for x in a {
    cmd.arg(x.to_string());
  }
  match cmd.output() {
    Ok(o) => ints(&String::from_utf8_lossy(&o.stdout)),
    Err(e) => {
      // a tool failure (e.g. the harness binary was replaced while running), never a verdict
      eprintln!("tvh: cannot start a fresh process: {}", e);
      std::process::exit(3);
    }
  }
}

/// long mixed histories in ONE warm process; every answer is compared with the answer of a fresh process
fn mixed(ctx: &Ctx) -> usize {
  let n = if ctx.quick() { 1200 } else { 20000 };
  let mut total = mixed_run(ctx, "mixed", n, 8000, None);
  // ... and histories whose years all come from one small pool {y, y+1, 10y..10y+19}
  let (pools, per) = if ctx.quick() { (2, 450) } else { (12, 1200) };
  let mut rng = ctx.rng(8100);
  for k in 0..pools {
    let y0 = rng.range(30, 990);
    let mut pool: Vec<i64> = vec![y0, y0 + 1];
    pool.extend((10 * y0)..(10 * y0 + 20));
    total += mixed_run(ctx, &format!("mixedp{}", k), per, 8200 + k as u64, Some(pool));
  }
  total
}

fn mixed_run(ctx: &Ctx, tag: &str, n: i64, salt: u64, pool: Option<Vec<i64>>) -> usize {
  let mut sink = ctx.sink("Trace_C10", tag);
  let mut hsink = ctx.sink("Trace_C10", &format!("{}ce", tag));
  let mut rng = ctx.rng(salt);
  cache_reset();
  hooks::install();
  let mut qs: Vec<(i64, Vec<i64>, Vec<i64>)> = Vec::new();
  for qi in 0..n {
    // the memo model carries the whole memo as a function: histories are validated in stretches of 4000 queries, the memo
    // is reset between stretches (validation cost grows with the square of the memo size)
    if qi > 0 && qi % 4000 == 0 {
      hsink.segment();
      dump_hooks(&mut hsink, true);
      cache_reset();
      hooks::install();
    }
    let fam = rng.range(0, NFAM - 1);
    let a = match pool.as_ref() {
      Some(p) => gen_pool(&mut rng, fam, p),
      None => gen(&mut rng, fam),
    };
    let w = answer(fam, &a);
    // every other query is followed by a close neighbour of the same family (same day / year, another instant / index)
    if rng.range(0, 1) == 0 {
      let b = neighbour(&mut rng, fam, &a);
      let wb = answer(fam, &b);
      qs.push((fam, a, w));
      qs.push((fam, b, wb));
    } else {
      qs.push((fam, a, w));
    }
  }
  let pois = hooks::cache_poisoned();
  hsink.segment();
  dump_hooks(&mut hsink, true);
  // fresh processes, in parallel
  let parts: Vec<Vec<(i64, Vec<i64>, Vec<i64>)>> = crate::windows::deal(qs, ctx.threads);
  let lines: Vec<Vec<String>> = std::thread::scope(|s| {
    let hs: Vec<_> = parts.into_iter().map(|p| {
      s.spawn(move || {
        p.into_iter().map(|(fam, a, w)| {
          let c = fresh_answer(fam, &a);
          tick();
          Ev::new("q").i("s", 1).i("fam", fam).a("a", &a).a("w", &w).a("c", &c).done()
        }).collect::<Vec<String>>()
      })
    }).collect();
    hs.into_iter().map(|h| h.join().unwrap()).collect()
  });
  sink.segment();
  for l in lines {
    for x in l {
      sink.put(x);
    }
  }
  sink.put(Ev::new("end").i("s", 1).b("pois", pois).done());
  cache_reset();
  sink.total + hsink.total
}

/// lazy per-value memos: every order of up to 3 getters on one value vs the answers of fresh values
fn lazy(ctx: &Ctx) -> usize {
  let mut sink = ctx.sink("Trace_C10", "lazy");
  let mut rng = ctx.rng(9000);
  let n = if ctx.quick() { 25 } else { 400 };
  // getter ids: 0 solar day, 1 sixty-cycle day (month pillar), 2 week, 3 day pillar, 4 clone then solar day, 5 name
  let getter = |d: &LunarDay, g: i64| -> Vec<i64> {
    catch(|| match g {
      0 => {
        let s = d.get_solar_day();
        vec![s.get_year() as i64, s.get_month() as i64, s.get_day() as i64]
      }
      1 => {
        let s = d.get_sixty_cycle_day();
        vec![s.get_month().get_index() as i64, s.get_year().get_index() as i64]
      }
      2 => vec![d.get_week().get_index() as i64],
      3 => vec![d.get_sixty_cycle().get_index() as i64],
      4 => {
        let s = d.clone().get_solar_day();
        vec![s.get_year() as i64, s.get_month() as i64, s.get_day() as i64]
      }
      _ => vec![d.get_name().chars().count() as i64, d.get_day() as i64],
    }).unwrap_or(vec![-999])
  };
  let hgetter = |h: &LunarHour, g: i64| -> Vec<i64> {
    catch(|| match g {
      0 => {
        let s = h.get_solar_time();
        vec![s.get_year() as i64, s.get_month() as i64, s.get_day() as i64, s.get_hour() as i64]
      }
      1 => {
        let s = h.get_sixty_cycle_hour();
        vec![s.get_month().get_index() as i64, s.get_day().get_index() as i64, s.get_sixty_cycle().get_index() as i64]
      }
      2 => vec![h.get_sixty_cycle().get_index() as i64],
      3 => {
        let e = h.get_eight_char();
        vec![e.get_day().get_index() as i64, e.get_hour().get_index() as i64]
      }
      4 => {
        let s = h.clone().get_solar_time();
        vec![s.get_year() as i64, s.get_month() as i64, s.get_day() as i64, s.get_hour() as i64]
      }
      _ => vec![h.get_index_in_day() as i64],
    }).unwrap_or(vec![-999])
  };
  sink.segment();
  for _ in 0..n {
    let y = rng.range(30, 9990);
    let m = rng.range(1, 12);
    let dd = rng.range(1, 29);
    let hh = rng.range(0, 23);
    for g1 in 0..6i64 {
      for g2 in 0..6i64 {
        for g3 in 0..6i64 {
          if ctx.quick() && (g1 + g2 * 2 + g3 * 3) % 4 != 0 {
            continue;
          }
          let order = [g1, g2, g3];
          // LunarDay
          if let Some(v) = catch(|| LunarDay::from_ymd(y as isize, m as isize, dd as usize)) {
            let mut got: Vec<i64> = Vec::new();
            let mut want: Vec<i64> = Vec::new();
            for g in order {
              got.extend(getter(&v, g));
              let fresh = catch(|| LunarDay::from_ymd(y as isize, m as isize, dd as usize));
              want.extend(fresh.map(|f| getter(&f, g)).unwrap_or(vec![-999]));
            }
            sink.put(Ev::new("lz").i("s", 1).i("t", 0).a("v", &[y, m, dd, 0]).a("o", &order).a("got", &got).a("want", &want).done());
          }
          if let Some(v) = catch(|| LunarHour::from_ymd_hms(y as isize, m as isize, dd as usize, hh as usize, 30, 0)) {
            let mut got: Vec<i64> = Vec::new();
            let mut want: Vec<i64> = Vec::new();
            for g in order {
              got.extend(hgetter(&v, g));
              let fresh = catch(|| LunarHour::from_ymd_hms(y as isize, m as isize, dd as usize, hh as usize, 30, 0));
              want.extend(fresh.map(|f| hgetter(&f, g)).unwrap_or(vec![-999]));
            }
            sink.put(Ev::new("lz").i("s", 1).i("t", 1).a("v", &[y, m, dd, hh]).a("o", &order).a("got", &got).a("want", &want).done());
          }
        }
      }
    }
  }
  // query, then step, then query the stepped value: the answers of x.next(n) must not depend on what x had
  // already been asked (per-value memos must not travel with a stepped value)
  let nsteps = if ctx.quick() { 40 } else { 800 };
  for _ in 0..nsteps {
    let y = rng.range(260, 9990);
    let m = rng.range(1, 12);
    let dd = rng.range(1, 29);
    let hh = rng.range(0, 23);
    for g1 in 0..6i64 {
      for (si, n) in [-3i64, 1, 2, 5, 11, 13, -13, 30].iter().enumerate() {
        let g2 = (g1 + si as i64) % 6;
        // LunarHour: warm value asked g1 first, cold value not asked anything
        let warm = catch(|| LunarHour::from_ymd_hms(y as isize, m as isize, dd as usize, hh as usize, 30, 15));
        let cold = catch(|| LunarHour::from_ymd_hms(y as isize, m as isize, dd as usize, hh as usize, 30, 15));
        if let (Some(w), Some(c)) = (warm, cold) {
          let a1 = hgetter(&w, g1);
          let got: Vec<i64> = catch(|| w.next(*n as isize)).map(|x| hgetter(&x, g2)).unwrap_or(vec![-999]);
          let want: Vec<i64> = catch(|| c.next(*n as isize)).map(|x| hgetter(&x, g2)).unwrap_or(vec![-999]);
          let _ = a1;
          sink.put(Ev::new("lz").i("s", 1).i("t", 3).a("v", &[y, m, dd, hh]).a("o", &[g1, *n, g2]).a("got", &got).a("want", &want).done());
        }
        let warm = catch(|| LunarDay::from_ymd(y as isize, m as isize, dd as usize));
        let cold = catch(|| LunarDay::from_ymd(y as isize, m as isize, dd as usize));
        if let (Some(w), Some(c)) = (warm, cold) {
          let _ = getter(&w, g1);
          let got: Vec<i64> = catch(|| w.next(*n as isize)).map(|x| getter(&x, g2)).unwrap_or(vec![-999]);
          let want: Vec<i64> = catch(|| c.next(*n as isize)).map(|x| getter(&x, g2)).unwrap_or(vec![-999]);
          sink.put(Ev::new("lz").i("s", 1).i("t", 2).a("v", &[y, m, dd, 0]).a("o", &[g1, *n, g2]).a("got", &got).a("want", &want).done());
        }
      }
    }
  }
  sink.total
}

const LP_BAD: i64 = -999;
const LP_UNOBS: i64 = -1000001;

/// Mode C for the per-value lazy memos: every client program generated from Lazy.tla (views, clones, steps over two
/// registers), run on a real LunarDay and a real LunarHour.  One `lp` event per (program, type): the position each get
/// reports (offset from the base value, in the type's own unit) and an auxiliary observable (pillar index).
fn lazy_programs(ctx: &Ctx) -> usize {
  let path = match &ctx.cases {
    Some(p) => p.clone(),
    None => return 0,
  };
  let mut sink = ctx.sink("Trace_C10", "lprog");
  let mut rng = ctx.rng(9100);
  let f = BufReader::new(std::fs::File::open(path).unwrap());
  sink.segment();
  for line in f.lines() {
    let line = line.unwrap();
    if !line.contains("\"ops\"") {
      continue;
    }
    let ops = ints(&line);
    if ops.is_empty() || ops.len() % 4 != 0 {
      continue;
    }
    // base value: any lunar day after the reform seams, day <= 29 (exists in every month), any hour
    let y = rng.range(260, 9990);
    let m = rng.range(1, 12);
    let dd = rng.range(1, 29);
    let hh = rng.range(0, 23);
    // ---- LunarDay: unit = one day ----
    if let (Some(a), Some(b)) = (catch(|| LunarDay::from_ymd(y as isize, m as isize, dd as usize)), catch(|| LunarDay::from_ymd(y as isize, m as isize, dd as usize))) {
      let jb = catch(|| jdn_of(LunarDay::from_ymd(y as isize, m as isize, dd as usize).get_solar_day().get_julian_day().get_day()).0).unwrap_or(LP_BAD);
      let mut regs: Vec<Option<LunarDay>> = vec![Some(a), Some(b)];
      let mut got: Vec<i64> = Vec::new();
      let mut aux: Vec<i64> = Vec::new();
      for op in ops.chunks(4) {
        let (c, r, q, d) = (op[0], (op[1] - 1) as usize, (op[2] - 1) as usize, op[3]);
        let src = regs[r].clone();
        match c {
          1 | 2 | 3 => {
            // the clone for `via` is taken here, the views are asked on the register itself otherwise
            let res = match (c, regs[r].as_ref()) {
              (_, None) => None,
              (1, Some(v)) => catch(|| { let s = v.get_solar_day(); (jdn_of(s.get_julian_day().get_day()).0 - jb, v.get_sixty_cycle().get_index() as i64) }),
              (2, Some(v)) => catch(|| { let s = v.get_sixty_cycle_day(); (jdn_of(s.get_solar_day().get_julian_day().get_day()).0 - jb, s.get_sixty_cycle().get_index() as i64) }),
              (_, Some(v)) => catch(|| { let s = v.clone().get_sixty_cycle_day(); (jdn_of(s.get_solar_day().get_julian_day().get_day()).0 - jb, s.get_sixty_cycle().get_index() as i64) }),
            };
            let (g, x) = res.unwrap_or((LP_BAD, LP_BAD));
            got.push(g);
            aux.push(x);
          }
          4 => regs[q] = src,
          5 => regs[q] = src.and_then(|v| catch(|| v.next(d as isize))),
          _ => {}
        }
      }
      sink.put(Ev::new("lp").i("s", 1).i("t", 0).a("v", &[y, m, dd, 0]).i("jb", jb).i("hb", 0).a("ops", &ops).a("got", &got).a("aux", &aux).done());
    }
    // ---- LunarHour: unit = one double-hour (next(n) adds 2n hours) ----
    let mk = || catch(|| LunarHour::from_ymd_hms(y as isize, m as isize, dd as usize, hh as usize, 30, 15));
    if let (Some(a), Some(b)) = (mk(), mk()) {
      let base = mk().and_then(|v| catch(|| v.get_solar_time()));
      let jb = base.as_ref().map(|t| jdn_of(t.get_julian_day().get_day()).0).unwrap_or(LP_BAD);
      let off = |t: &tyme4rs::tyme::solar::SolarTime| -> i64 {
        match base.as_ref() {
          Some(b0) => {
            let sec = t.subtract(*b0) as i64;
            if sec % 7200 == 0 { sec / 7200 } else { LP_BAD }
          }
          None => LP_BAD,
        }
      };
      let mut regs: Vec<Option<LunarHour>> = vec![Some(a), Some(b)];
      let mut got: Vec<i64> = Vec::new();
      let mut aux: Vec<i64> = Vec::new();
      for op in ops.chunks(4) {
        let (c, r, q, d) = (op[0], (op[1] - 1) as usize, (op[2] - 1) as usize, op[3]);
        let src = regs[r].clone();
        match c {
          1 | 2 | 3 => {
            let res = match (c, regs[r].as_ref()) {
              (_, None) => None,
              (1, Some(v)) => catch(|| { let t = v.get_solar_time(); (off(&t), v.get_sixty_cycle().get_index() as i64) }),
              (2, Some(v)) => catch(|| { let s = v.get_sixty_cycle_hour(); (off(&s.get_solar_time()), s.get_sixty_cycle().get_index() as i64) }),
              // get_eight_char works on a clone of the value: the instant is not observable, the hour pillar is
              (_, Some(v)) => catch(|| { let e = v.get_eight_char(); (LP_UNOBS, e.get_hour().get_index() as i64) }),
            };
            let (g, x) = res.unwrap_or((LP_BAD, LP_BAD));
            got.push(g);
            aux.push(x);
          }
          4 => regs[q] = src,
          5 => regs[q] = src.and_then(|v| catch(|| v.next(d as isize))),
          _ => {}
        }
      }
      sink.put(Ev::new("lp").i("s", 1).i("t", 1).a("v", &[y, m, dd, hh]).i("jb", jb).i("hb", hh).a("ops", &ops).a("got", &got).a("aux", &aux).done());
    }
  }
  sink.total
}

pub fn run(ctx: &Ctx) -> usize {
  QUICK.store(ctx.quick(), std::sync::atomic::Ordering::Relaxed);
  histories(ctx) + collisions(ctx) + pools(ctx) + threads(ctx) + threads_strategy(ctx) + leap_table(ctx) + mixed(ctx) + lazy(ctx) + lazy_programs(ctx)
}

/// `tvh ask fam a1 a2 ...` — one query in a fresh process
pub fn ask(args: &[String]) {
  let fam: i64 = args[0].parse().unwrap();
  let a: Vec<i64> = args[1..].iter().map(|x| x.parse().unwrap()).collect();
  let v = answer(fam, &a);
  let s: Vec<String> = v.iter().map(|x| x.to_string()).collect();
  println!("{}", s.join(" "));
}
