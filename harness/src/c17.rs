//! C17 — daily and hourly almanac cycles obey their defining recurrences.  Producer of `Trace_C17`.
//!   d  : one civil day: pillars, lunar date, officer, path spirit, mansion (two routes each), six-day star,
//!        day nine star (two routes), phase, minor Ren, and the solstice days the nine-star rule hangs on
//!   h  : one double-hour slot of a sampled day: hour nine star and path spirit through LunarHour and SixtyCycleHour
//!   y  : one year: year nine star through LunarYear and SixtyCycleYear
//!   m  : one (year, month): month nine star through LunarMonth and SixtyCycleMonth, minor Ren of the month
use std::cell::RefCell;
use std::collections::HashMap;

use tyme4rs::tyme::lunar::{LunarMonth, LunarYear};
use tyme4rs::tyme::sixtycycle::{SixtyCycleMonth, SixtyCycleYear};
use tyme4rs::tyme::solar::{SolarDay, SolarTerm, SolarTime};

use crate::c01::ymd;
use crate::daywalk::*;
use crate::lib_util::*;
use crate::windows::*;

thread_local! {
  static SOL: RefCell<HashMap<i64, Vec<i64>>> = RefCell::new(HashMap::new());
}

fn term_day(y: i64, i: i64) -> i64 {
  catch(|| jdn(&SolarTerm::from_index(y as isize, i as isize).get_julian_day().get_solar_day())).unwrap_or(-1)
}

/// [summer solstice of y-1, winter solstice of Dec y-1, summer solstice of y, winter solstice of Dec y]
fn solstices(y: i64) -> Vec<i64> {
  SOL.with(|c| {
    let mut c = c.borrow_mut();
    if c.len() > 64 {
      c.clear();
    }
    c.entry(y).or_insert_with(|| vec![term_day(y - 1, 12), term_day(y, 0), term_day(y, 12), term_day(y + 1, 0)]).clone()
  })
}

fn day_line(d: &SolarDay, first: bool, prev: Option<&SolarDay>) -> String {
  let (y, m, dd) = ymd(d);
  let j = jdn(d);
  let sol = solstices(y);
  let w = catch(|| d.get_week().get_index() as i64).unwrap_or(-9);
  let sd = catch_iso(|| d.get_sixty_cycle_day());
  let ld = catch_iso(|| d.get_lunar_day());
  let g = |x: Option<i64>| x.unwrap_or(-9);
  let p = g(sd.as_ref().map(|s| s.get_sixty_cycle().get_index() as i64));
  let mp = g(sd.as_ref().map(|s| s.get_month().get_index() as i64));
  let (ly, lm, ldd) = ld.as_ref().map(|l| (l.get_year() as i64, l.get_month() as i64, l.get_day() as i64)).unwrap_or((-9, -9, -9));
  let duty1 = g(sd.as_ref().and_then(|s| catch_iso(|| s.get_duty().get_index() as i64)));
  let duty2 = g(ld.as_ref().and_then(|s| catch_iso(|| s.get_duty().get_index() as i64)));
  let tw1 = g(sd.as_ref().and_then(|s| catch_iso(|| s.get_twelve_star().get_index() as i64)));
  let tw2 = g(ld.as_ref().and_then(|s| catch_iso(|| s.get_twelve_star().get_index() as i64)));
  let ms1 = g(sd.as_ref().and_then(|s| catch_iso(|| s.get_twenty_eight_star().get_index() as i64)));
  let ms2 = g(ld.as_ref().and_then(|s| catch_iso(|| s.get_twenty_eight_star().get_index() as i64)));
  let six = g(ld.as_ref().and_then(|s| catch_iso(|| s.get_six_star().get_index() as i64)));
  let ns1 = g(sd.as_ref().and_then(|s| catch_iso(|| s.get_nine_star().get_index() as i64)));
  let ns2 = g(ld.as_ref().and_then(|s| catch_iso(|| s.get_nine_star().get_index() as i64)));
  let ph = g(ld.as_ref().and_then(|s| catch_iso(|| s.get_phase().get_index() as i64)));
  let mr = g(ld.as_ref().and_then(|s| catch_iso(|| s.get_minor_ren().get_index() as i64)));
  // third route for officer and path spirit: the previous day's lunar day, already asked for both (which fills its
  // per-value memos), stepped by one; -2 = no previous day in this segment
  let st: Vec<i64> = match prev {
    None => vec![-2, -2],
    Some(q) => {
      use tyme4rs::tyme::Tyme as _;
      let l = catch_iso(|| {
        let l0 = q.get_lunar_day();
        let _ = catch(|| l0.get_duty());
        let _ = catch(|| l0.get_twelve_star());
        l0.next(1)
      });
      vec![g(l.as_ref().and_then(|x| catch_iso(|| x.get_duty().get_index() as i64))), g(l.as_ref().and_then(|x| catch_iso(|| x.get_twelve_star().get_index() as i64)))]
    }
  };
  Ev::new("d").b("s", first).i("y", y).i("m", m).i("d", dd).i("j", j).i("w", w).i("p", p).i("mp", mp).a("st", &st).i("ly", ly).i("lm", lm).i("ld", ldd)
    .a("duty", &[duty1, duty2]).a("tw", &[tw1, tw2]).a("ms", &[ms1, ms2]).i("six", six).a("ns", &[ns1, ns2]).i("ph", ph).i("mr", mr).a("sol", &sol).done()
}

fn hour_lines(ctx: &Ctx, tag: &str, count: usize, salt: u64) -> usize {
  let mut sink = ctx.sink("Trace_C17", tag);
  sink.segment();
  let mut rng = ctx.rng(salt);
  let mut first = true;
  for n in 0..count {
    // a third of the samples in the last ten days of December, where the half-year has already turned
    let j = if n % 3 == 0 {
      let y = rng.range(2, 9998);
      term_day(y + 1, 0) + rng.range(0, 9)
    } else {
      rng.range(1721424 + 800, 5373484 - 800)
    };
    let d = match catch(|| tyme4rs::tyme::jd::JulianDay::from_julian_day(j as f64 - 0.5).get_solar_day()) {
      Some(d) => d,
      None => continue,
    };
    let (y, _, _) = ymd(&d);
    let sol = solstices(y);
    for hh in [0usize, 1, 3, 5, 7, 9, 11, 13, 15, 17, 19, 21, 23] {
      let t = match catch(|| SolarTime::from_ymd_hms(d.get_year(), d.get_month(), d.get_day(), hh, 20, 0)) {
        Some(t) => t,
        None => continue,
      };
      let sh = catch_iso(|| t.get_sixty_cycle_hour());
      let lh = catch_iso(|| t.get_lunar_hour());
      let g = |x: Option<i64>| x.unwrap_or(-9);
      let dp = g(sh.as_ref().map(|s| s.get_day().get_index() as i64));
      // LunarHour keeps its own (unrolled) lunar day for the nine star, pinned by the library's test11
      let ldp = g(lh.as_ref().and_then(|l| catch_iso(|| l.get_lunar_day().get_sixty_cycle().get_index() as i64)));
      let hp = g(sh.as_ref().map(|s| s.get_sixty_cycle().get_index() as i64));
      let hi = g(sh.as_ref().map(|s| s.get_index_in_day() as i64));
      let ns1 = g(sh.as_ref().and_then(|s| catch_iso(|| s.get_nine_star().get_index() as i64)));
      let ns2 = g(lh.as_ref().and_then(|s| catch_iso(|| s.get_nine_star().get_index() as i64)));
      let tw1 = g(sh.as_ref().and_then(|s| catch_iso(|| s.get_twelve_star().get_index() as i64)));
      let tw2 = g(lh.as_ref().and_then(|s| catch_iso(|| s.get_twelve_star().get_index() as i64)));
      let mr = g(lh.as_ref().and_then(|s| catch_iso(|| s.get_minor_ren().get_index() as i64)));
      let (lm, ld) = lh.as_ref().map(|l| (l.get_month() as i64, l.get_day() as i64)).unwrap_or((-9, -9));
      // the lunar day the (already queried) hour hands out must answer as a freshly built lunar day of that date
      let hday = lh.as_ref().and_then(|l| catch_iso(|| l.get_lunar_day()));
      let fday = catch_iso(|| d.get_lunar_day());
      let two = |x: &Option<tyme4rs::tyme::lunar::LunarDay>| -> Vec<i64> {
        vec![g(x.as_ref().and_then(|v| catch_iso(|| v.get_duty().get_index() as i64))), g(x.as_ref().and_then(|v| catch_iso(|| v.get_twelve_star().get_index() as i64)))]
      };
      let (hd, fd) = (two(&hday), two(&fday));
      sink.put(Ev::new("h").b("s", first).a("hd", &hd).a("fd", &fd).i("j", j).i("hh", hh as i64).i("dp", dp).i("ldp", ldp).i("hp", hp).i("hi", hi).a("ns", &[ns1, ns2]).a("tw", &[tw1, tw2]).i("mr", mr).i("lm", lm).i("ld", ld).a("sol", &sol).done());
      first = false;
    }
  }
  sink.total
}

fn year_lines(ctx: &Ctx, tag: &str, years: Vec<i64>) -> usize {
  let mut sink = ctx.sink("Trace_C17", tag);
  sink.segment();
  let mut first = true;
  for y in years {
    let a = catch_iso(|| LunarYear::from_year(y as isize).get_nine_star().get_index() as i64).unwrap_or(-9);
    let b = catch_iso(|| SixtyCycleYear::from_year(y as isize).get_nine_star().get_index() as i64).unwrap_or(-9);
    sink.put(Ev::new("y").b("s", first).i("y", y).a("ns", &[a, b]).done());
    first = false;
    if y < 0 || y > 9999 {
      continue;
    }
    let yb = ((y - 4) % 12 + 12) % 12;
    for k in 0..12i64 {
      let sm = catch_iso(|| SixtyCycleMonth::from_index(y as isize, k as isize));
      let smb = sm.as_ref().map(|m| m.get_sixty_cycle().get_earth_branch().get_index() as i64).unwrap_or(-9);
      let sms = sm.as_ref().and_then(|m| catch_iso(|| m.get_nine_star().get_index() as i64)).unwrap_or(-9);
      let lm = catch_iso(|| LunarMonth::from_ym(y as isize, k as isize + 1));
      let lmb = lm.as_ref().and_then(|m| catch_iso(|| m.get_sixty_cycle().get_earth_branch().get_index() as i64)).unwrap_or(-9);
      let lms = lm.as_ref().and_then(|m| catch_iso(|| m.get_nine_star().get_index() as i64)).unwrap_or(-9);
      let mr = lm.as_ref().and_then(|m| catch_iso(|| m.get_minor_ren().get_index() as i64)).unwrap_or(-9);
      sink.put(Ev::new("m").i("s", 0).i("y", y).i("yb", yb).i("o", k).i("smb", smb).i("sms", sms).i("lmb", lmb).i("lms", lms).i("mr", mr).done());
    }
  }
  sink.total
}

pub fn run(ctx: &Ctx) -> usize {
  let mut wins = day_windows(ctx, 1701, 100, 200, 1);
  if ctx.quick() {
    // leap months (every day of them matters for the six-day star) and the turn of the year
    for y in [2020i64, 2023, 2033, 1651, 984, 7013] {
      wins.push(Window { start: Start::Ymd(y, 1, 1), days: 400 });
    }
    let mut rng = ctx.rng(1702);
    for _ in 0..120 {
      let y = rng.range(2, 9997);
      wins.push(Window { start: Start::Ymd(y, 12, 10), days: 60 });
    }
    // two days in mid-January of every year: where one wrong entry of the leap-month table shows in the lunar-day route
    for y in 30..=9997i64 {
      if !(236..=240).contains(&y) {
        wins.push(Window { start: Start::Ymd(y, 1, 15), days: 2 });
      }
    }
  }
  let a = walk_days(ctx, "Trace_C17", wins, day_line);
  let years: Vec<i64> = if ctx.quick() {
    let mut v: Vec<i64> = vec![-1, 0, 1, 2, 1863, 1864, 1865, 1923, 1924, 1983, 1984, 2023, 2043, 2044, 9998, 9999];
    let mut rng = ctx.rng(1703);
    for _ in 0..1200 {
      v.push(rng.range(1, 9999));
    }
    v
  } else {
    (-1..=9999).collect()
  };
  let parts = deal(years, ctx.threads);
  let mut b = 0usize;
  let nh = if ctx.quick() { 200 } else { 3000 };
  std::thread::scope(|s| {
    let hs: Vec<_> = parts.into_iter().enumerate().map(|(t, p)| s.spawn(move || year_lines(ctx, &format!("y{:02}", t), p) + hour_lines(ctx, &format!("h{:02}", t), nh, 17000 + t as u64))).collect();
    for h in hs {
      b += h.join().unwrap();
    }
  });
  a + b
}
