//! X02 (beyond the listed properties) — the rest of the public API.  Producer of `Trace_X02`:
//!   br : back references of a day's parts (half-year, season, week -> year / month; lunar week -> month; lunar season)
//!   ho : an ordered pair of lunar hours: is_before / is_after / == against the instants
//!   dp : deprecated pillar getters of LunarDay / LunarHour and SixtyCycleHour::get_sixty_cycle_day against the views
//!   ju : Jupiter directions of year / month / day through the lunar and the sexagenary route
//!   fd : the day foetus spirit through its constructors
//!   du : the day officer of an eight-character chart
//!   s2 : the second eight-character strategy
//!   fy : lunar-year labels of the child limit and its fortunes
//!   en : the small enumerations (code <-> value <-> name)
use tyme4rs::tyme::culture::fetus::FetusDay;
use tyme4rs::tyme::eightchar::provider::{DefaultEightCharProvider, EightCharProvider, LunarSect2EightCharProvider};
use tyme4rs::tyme::eightchar::{ChildLimit, EightChar};
use tyme4rs::tyme::enums::{FestivalType, Gender, HideHeavenStemType, Side, YinYang};
use tyme4rs::tyme::jd::JulianDay;
use tyme4rs::tyme::lunar::LunarHour;
use tyme4rs::tyme::solar::{SolarDay, SolarTime};
use tyme4rs::tyme::Tyme;

use crate::c06::inst;
use crate::lib_util::*;

const BAD: i64 = -999;

fn fetus4(f: &FetusDay) -> Vec<i64> {
  vec![f.get_fetus_heaven_stem().get_index() as i64, f.get_fetus_earth_branch().get_index() as i64, if f.get_side() == Side::IN { 0 } else { 1 }, f.get_direction().get_index() as i64]
}

fn ec4(e: &EightChar) -> Vec<i64> {
  vec![e.get_year().get_index() as i64, e.get_month().get_index() as i64, e.get_day().get_index() as i64, e.get_hour().get_index() as i64]
}

#[allow(deprecated)]
fn day(sink: &mut Sink, rng: &mut Rng, d: &SolarDay) {
  let (y, m, dd) = (d.get_year() as i64, d.get_month() as i64, d.get_day() as i64);
  let g = |x: Option<i64>| x.unwrap_or(BAD);
  // ---- back references ----
  let mo = d.get_solar_month();
  let se = mo.get_season();
  let hy = catch(|| mo.get_solar_year().get_half_years()[(m as usize - 1) / 6].clone());
  let start = rng.range(0, 6) as usize;
  let wk = catch(|| d.get_solar_week(start));
  let ld = catch_iso(|| d.get_lunar_day());
  let lw = ld.as_ref().and_then(|l| catch_iso(|| l.get_lunar_month().get_weeks(start)).and_then(|ws| ws.into_iter().find(|w| w.get_days().iter().any(|x| x == l))));
  let (lmy, lmm) = ld.as_ref().map(|l| (l.get_year() as i64, l.get_month() as i64)).unwrap_or((BAD, BAD));
  sink.put(Ev::new("br").i("s", 0).i("y", y).i("m", m).i("d", dd)
    .i("hyY", g(hy.as_ref().and_then(|h| catch(|| h.get_solar_year().get_year() as i64))))
    .i("seY", g(catch(|| se.get_solar_year().get_year() as i64)))
    .a("wk", &wk.as_ref().and_then(|w| catch(|| { let x = w.get_solar_month(); vec![x.get_year() as i64, x.get_month() as i64, w.get_year() as i64, w.get_month() as i64] })).unwrap_or(vec![BAD; 4]))
    .a("lw", &lw.as_ref().and_then(|w| catch_iso(|| { let x = w.get_lunar_month(); vec![x.get_year() as i64, x.get_month_with_leap() as i64, w.get_year() as i64, w.get_month() as i64] })).unwrap_or(vec![BAD; 4]))
    .i("lmy", lmy).i("lmm", lmm)
    .i("ls", g(ld.as_ref().and_then(|l| catch_iso(|| l.get_lunar_month().get_season().get_index() as i64))))
    .done());
  // ---- an instant of this day and its views ----
  let hr = rng.range(0, 23);
  let (h, mi, s) = (*rng.pick(&[0i64, 1, 11, 12, 22, 23, hr]), rng.range(0, 59), rng.range(0, 59));
  let t = SolarTime::from_ymd_hms(y as isize, m as usize, dd as usize, h as usize, mi as usize, s as usize);
  let lh = catch_iso(|| t.get_lunar_hour());
  let sh = catch_iso(|| t.get_sixty_cycle_hour());
  let sd = catch_iso(|| d.get_sixty_cycle_day());
  // ---- deprecated pillar getters against the views they are documented to equal ----
  if let (Some(l), Some(lhv), Some(shv), Some(sdv)) = (ld.as_ref(), lh.as_ref(), sh.as_ref(), sd.as_ref()) {
    let a = vec![
      g(catch_iso(|| l.get_year_sixty_cycle().get_index() as i64)), g(catch_iso(|| l.get_month_sixty_cycle().get_index() as i64)),
      g(catch_iso(|| lhv.get_year_sixty_cycle().get_index() as i64)), g(catch_iso(|| lhv.get_month_sixty_cycle().get_index() as i64)), g(catch_iso(|| lhv.get_day_sixty_cycle().get_index() as i64)),
    ];
    let b = vec![sdv.get_year().get_index() as i64, sdv.get_month().get_index() as i64, shv.get_year().get_index() as i64, shv.get_month().get_index() as i64, shv.get_day().get_index() as i64];
    let hd = catch(|| { let x = shv.get_sixty_cycle_day(); vec![x.get_year().get_index() as i64, x.get_month().get_index() as i64, x.get_sixty_cycle().get_index() as i64] }).unwrap_or(vec![BAD; 3]);
    sink.put(Ev::new("dp").i("s", 0).i("y", y).i("m", m).i("d", dd).i("h", h).a("a", &a).a("b", &b).a("hd", &hd).done());
  }
  // ---- Jupiter directions ----
  if let (Some(l), Some(sdv)) = (ld.as_ref(), sd.as_ref()) {
    let lm = l.get_lunar_month();
    let ly = lm.get_lunar_year();
    let sm = sdv.get_sixty_cycle_month();
    let sy = sm.get_sixty_cycle_year();
    sink.put(Ev::new("ju").i("s", 0).i("y", y).i("m", m).i("d", dd)
      .i("yp", sy.get_sixty_cycle().get_index() as i64).i("mp", sm.get_sixty_cycle().get_index() as i64).i("dp", sdv.get_sixty_cycle().get_index() as i64)
      .i("lyp", ly.get_sixty_cycle().get_index() as i64).i("lmp", g(catch_iso(|| lm.get_sixty_cycle().get_index() as i64))).i("ldp", g(catch_iso(|| l.get_sixty_cycle().get_index() as i64)))
      .i("jys", g(catch(|| sy.get_jupiter_direction().get_index() as i64))).i("jyl", g(catch(|| ly.get_jupiter_direction().get_index() as i64)))
      .i("jms", g(catch(|| sm.get_jupiter_direction().get_index() as i64))).i("jml", g(catch_iso(|| lm.get_jupiter_direction().get_index() as i64)))
      .i("jds", g(catch(|| sdv.get_jupiter_direction().get_index() as i64))).i("jdl", g(catch_iso(|| l.get_jupiter_direction().get_index() as i64)))
      .done());
    // ---- foetus spirit of the day: five routes ----
    let dp = sdv.get_sixty_cycle();
    let routes: Vec<Vec<i64>> = vec![
      catch(|| fetus4(&FetusDay::new(dp.clone()))).unwrap_or(vec![BAD; 4]),
      catch_iso(|| fetus4(&FetusDay::from_lunar_day(l.clone()))).unwrap_or(vec![BAD; 4]),
      catch_iso(|| fetus4(&FetusDay::from_sixty_cycle_day(sdv.clone()))).unwrap_or(vec![BAD; 4]),
      catch_iso(|| fetus4(&l.get_fetus_day())).unwrap_or(vec![BAD; 4]),
      catch_iso(|| fetus4(&sdv.get_fetus_day())).unwrap_or(vec![BAD; 4]),
    ];
    let flat: Vec<i64> = routes.into_iter().flatten().collect();
    sink.put(Ev::new("fd").i("s", 0).i("dp", dp.get_index() as i64).a("r", &flat).done());
    // ---- day officer of the chart ----
    if let Some(shv) = sh.as_ref() {
      let e = shv.get_eight_char();
      sink.put(Ev::new("du").i("s", 0).i("mp", e.get_month().get_index() as i64).i("dp", e.get_day().get_index() as i64)
        .i("duty", g(catch(|| e.get_duty().get_index() as i64)))
        .i("dayduty", g(catch_iso(|| shv.get_sixty_cycle_day().get_duty().get_index() as i64))).done());
    }
  }
  // ---- second eight-character strategy ----
  if let Some(lhv) = lh.as_ref() {
    let def = catch_iso(|| ec4(&DefaultEightCharProvider::new().get_eight_char(lhv.clone()))).unwrap_or(vec![BAD; 4]);
    let s2 = catch_iso(|| ec4(&LunarSect2EightCharProvider::new().get_eight_char(lhv.clone()))).unwrap_or(vec![BAD; 4]);
    let ldp = g(catch_iso(|| lhv.get_lunar_day().get_sixty_cycle().get_index() as i64));
    sink.put(Ev::new("s2").i("s", 0).i("y", y).i("m", m).i("d", dd).i("h", h).a("def", &def).a("s2", &s2).i("ldp", ldp).done());
  }
  // ---- ordered pair of lunar hours ----
  if let Some(a) = lh.as_ref() {
    let delta = match rng.range(0, 5) {
      0 => 0,
      1 => rng.range(-59, 59),
      2 => rng.range(-3599, 3599),
      3 => rng.range(-86400 * 2, 86400 * 2),
      4 => rng.range(-86400 * 45, 86400 * 45),
      _ => rng.range(-86400 * 800, 86400 * 800),
    };
    if let Some(tb) = catch(|| t.next(delta as isize)) {
      if let Some(b) = catch_iso(|| tb.get_lunar_hour()) {
        let (qa, qb) = (inst(&t), inst(&tb));
        let before = catch_iso(|| a.is_before(b.clone()) as i64);
        let after = catch_iso(|| a.is_after(b.clone()) as i64);
        let eq = catch_iso(|| (*a == b) as i64);
        sink.put(Ev::new("ho").i("s", 0).a("qa", &[qa.0, qa.1]).a("qb", &[qb.0, qb.1]).i("before", g(before)).i("after", g(after)).i("eq", g(eq)).done());
      }
    }
  }
  // ---- lunar-year labels of the child limit and its fortunes ----
  if y >= 2 && y <= 9880 && rng.range(0, 3) == 0 { // decade 8 ends 100 years after the limit: stay inside 9999
    let gender = if rng.range(0, 1) == 0 { Gender::MAN } else { Gender::WOMAN };
    if let Some(cl) = catch_iso(|| ChildLimit::from_solar_time(t, gender)) {
      let bly = g(catch_iso(|| t.get_lunar_hour().get_year() as i64));
      let ey = cl.get_end_time().get_year() as i64;
      let k = rng.range(0, 8);
      let df = catch_iso(|| cl.get_start_decade_fortune().next(k as isize));
      let fo = catch_iso(|| cl.get_start_fortune().next(k as isize));
      sink.put(Ev::new("fy").i("s", 0).i("by", y).i("bly", bly).i("ey", ey).i("off", k)
        .i("ely", g(catch_iso(|| cl.get_end_lunar_year().get_year() as i64)))
        .i("dsl", g(df.as_ref().and_then(|x| catch_iso(|| x.get_start_lunar_year().get_year() as i64))))
        .i("del", g(df.as_ref().and_then(|x| catch_iso(|| x.get_end_lunar_year().get_year() as i64))))
        .i("fl", g(fo.as_ref().and_then(|x| catch_iso(|| x.get_lunar_year().get_year() as i64))))
        .i("gender", if cl.get_gender() == Gender::MAN { 1 } else { 0 }).i("asked", if gender == Gender::MAN { 1 } else { 0 })
        .done());
    }
  }
  let _: Option<LunarHour> = None;
}

fn enums(sink: &mut Sink) {
  // for each enumeration: codes 0..n (one beyond the last), what from_code / from_name give back
  macro_rules! en {
    ($name:expr, $ty:ty, $n:expr, $code:expr) => {{
      let mut names: Vec<String> = Vec::new();
      let mut back: Vec<i64> = Vec::new();
      let mut byname: Vec<i64> = Vec::new();
      for c in 0..$n {
        match <$ty>::from_code(c) {
          Ok(v) => {
            let nm = v.get_name();
            back.push($code(&v));
            byname.push(<$ty>::from_name(&nm).map(|x| $code(&x)).unwrap_or(BAD));
            names.push(nm);
          }
          Err(_) => {
            back.push(BAD);
            byname.push(BAD);
            names.push("<refused>".to_string());
          }
        }
      }
      let beyond = if <$ty>::from_code($n).is_err() { 1 } else { 0 };
      let unknown = if <$ty>::from_name("无此名称").is_err() { 1 } else { 0 };
      sink.put(Ev::new("en").i("s", 0).s("t", $name).i("n", $n as i64).a("back", &back).a("byname", &byname).sa("names", &names).i("beyond", beyond).i("unknown", unknown).done());
    }};
  }
  en!("Gender", Gender, 2usize, |v: &Gender| if *v == Gender::MAN { 1 } else { 0 });
  en!("Side", Side, 2usize, |v: &Side| if *v == Side::OUT { 1 } else { 0 });
  en!("YinYang", YinYang, 2usize, |v: &YinYang| if *v == YinYang::YANG { 1 } else { 0 });
  en!("FestivalType", FestivalType, 3usize, |v: &FestivalType| if *v == FestivalType::DAY { 0 } else if *v == FestivalType::TERM { 1 } else { 2 });
  en!("HideHeavenStemType", HideHeavenStemType, 3usize, |v: &HideHeavenStemType| if *v == HideHeavenStemType::RESIDUAL { 0 } else if *v == HideHeavenStemType::MIDDLE { 1 } else { 2 });
}

pub fn run(ctx: &Ctx) -> usize {
  let mut sink = ctx.sink("Trace_X02", "rest");
  sink.segment();
  sink.put(Ev::new("begin").i("s", 1).done());
  enums(&mut sink);
  let mut rng = ctx.rng(7200);
  let n = if ctx.quick() { 4000 } else { 120000 };
  for _ in 0..n {
    // after AD 260 (the reform seams are C02 findings) and inside the range every view supports
    let j = rng.range(1816000, 5373484 - 800);
    if let Some(d) = catch(|| JulianDay::from_julian_day(j as f64 - 0.5).get_solar_day()) {
      day(&mut sink, &mut rng, &d);
    }
  }
  sink.total
}
