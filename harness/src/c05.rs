//! C05 — solar terms and new moons sit at the true Sun/Moon longitudes.  Producer of `Trace_C05`.
//! Everything is logged as integers (seconds, milliseconds, micro-arcseconds); the bounds live in the spec.
//!   tq : one solar term: calendar-making day, precise instant and its civil day, error of the fast solver
//!        against the precise one, residual of the inverse solver, distance to an independent low-precision
//!        solar theory (Meeus, ch. 25) in UT+8 and in TT
//!   sq : one lunation: first day of the lunar month, precise conjunction instant and its civil day, fast-solver
//!        error, inverse-solver residual, distance to an independent new-moon series (Meeus, ch. 49)
//!   dt : TT-UT at one integer year: jump across the year, change over one year
//!   lo : closed-form low-precision term / new-moon instants against the precise ones (era in which they are used)
use std::f64::consts::PI;

use tyme4rs::tyme::lunar::LunarMonth;
use tyme4rs::tyme::solar::SolarTerm;
use tyme4rs::tyme::util::ShouXingUtil as U;
use tyme4rs::tyme::Tyme;

use crate::lib_util::*;

const J2000: f64 = 2451545.0;
const RAD_TO_UAS: f64 = 180.0 * 3600.0 * 1e6 / PI;

/// <<jdn, second of day>> of a J2000-based UT+8 day value (noon based), nearest second
fn split(t: f64) -> (i64, i64) {
  // the civil day ON WHICH the instant falls: floor, no rounding up across midnight
  let x = t + J2000 + 0.5;
  let j = x.floor();
  let s = (((x - j) * 86400.0).floor() as i64).min(86399);
  (j as i64, s)
}

// ---- independent measuring instruments (Meeus, Astronomical Algorithms, 2nd ed.) ----------------------------
fn deg(x: f64) -> f64 {
  x * PI / 180.0
}

/// apparent geocentric longitude of the Sun in degrees at JDE (TT), low accuracy (0.01 deg)
fn meeus_sun_lon(jde: f64) -> f64 {
  let t = (jde - 2451545.0) / 36525.0;
  let l0 = 280.46646 + 36000.76983 * t + 0.0003032 * t * t;
  let m = deg(357.52911 + 35999.05029 * t - 0.0001537 * t * t);
  let c = (1.914602 - 0.004817 * t - 0.000014 * t * t) * m.sin() + (0.019993 - 0.000101 * t) * (2.0 * m).sin() + 0.000289 * (3.0 * m).sin();
  let omega = deg(125.04 - 1934.136 * t);
  l0 + c - 0.00569 - 0.00478 * omega.sin()
}

/// JDE (TT) near `guess` at which the Sun's apparent longitude is `target` degrees (mod 360)
fn meeus_term(target: f64, guess: f64) -> f64 {
  let mut jde = guess;
  for _ in 0..8 {
    let mut d = (target - meeus_sun_lon(jde)) % 360.0;
    if d > 180.0 {
      d -= 360.0;
    }
    if d < -180.0 {
      d += 360.0;
    }
    jde += d * 365.2422 / 360.0;
  }
  jde
}

/// JDE (TT) of the new moon number k (k = 0 is the new moon of 2000-01-06), periodic terms of table 49.A
fn meeus_new_moon(k: f64) -> f64 {
  let t = k / 1236.85;
  let t2 = t * t;
  let t3 = t2 * t;
  let t4 = t3 * t;
  let jde = 2451550.09766 + 29.530588861 * k + 0.00015437 * t2 - 0.000000150 * t3 + 0.00000000073 * t4;
  let e = 1.0 - 0.002516 * t - 0.0000074 * t2;
  let m = deg(2.5534 + 29.10535670 * k - 0.0000014 * t2 - 0.00000011 * t3);
  let mp = deg(201.5643 + 385.81693528 * k + 0.0107582 * t2 + 0.00001238 * t3 - 0.000000058 * t4);
  let f = deg(160.7108 + 390.67050284 * k - 0.0016118 * t2 - 0.00000227 * t3 + 0.000000011 * t4);
  let om = deg(124.7746 - 1.56375588 * k + 0.0020672 * t2 + 0.00000215 * t3);
  let mut c = -0.40720 * mp.sin() + 0.17241 * e * m.sin() + 0.01608 * (2.0 * mp).sin() + 0.01039 * (2.0 * f).sin() + 0.00739 * e * (mp - m).sin() - 0.00514 * e * (mp + m).sin()
    + 0.00208 * e * e * (2.0 * m).sin() - 0.00111 * (mp - 2.0 * f).sin() - 0.00057 * (mp + 2.0 * f).sin() + 0.00056 * e * (2.0 * mp + m).sin() - 0.00042 * (3.0 * mp).sin()
    + 0.00042 * e * (m + 2.0 * f).sin() + 0.00038 * e * (m - 2.0 * f).sin() - 0.00024 * e * (2.0 * mp - m).sin() - 0.00017 * om.sin() - 0.00007 * (mp + 2.0 * m).sin()
    + 0.00004 * (2.0 * mp - 2.0 * f).sin() + 0.00004 * (3.0 * m).sin() + 0.00003 * (mp + m - 2.0 * f).sin() + 0.00003 * (2.0 * mp + 2.0 * f).sin() - 0.00003 * (mp + m + 2.0 * f).sin()
    + 0.00003 * (mp - m + 2.0 * f).sin() - 0.00002 * (mp - m - 2.0 * f).sin() - 0.00002 * (3.0 * mp + m).sin() + 0.00002 * (4.0 * mp).sin();
  // the largest planetary arguments
  let a1 = deg(299.77 + 0.107408 * k - 0.009173 * t2);
  let a2 = deg(251.88 + 0.016321 * k);
  let a3 = deg(251.83 + 26.651886 * k);
  let a4 = deg(349.42 + 36.412478 * k);
  let a5 = deg(84.66 + 18.206239 * k);
  c += 0.000325 * a1.sin() + 0.000165 * a2.sin() + 0.000164 * a3.sin() + 0.000126 * a4.sin() + 0.000110 * a5.sin();
  jde + c
}

/// TT-UT in seconds by the polynomial expressions of Espenak & Meeus (independent of the library's spline), 1900..2150
fn espenak_dt(y: f64) -> f64 {
  if y < 1920.0 {
    let t = y - 1900.0;
    -2.79 + 1.494119 * t - 0.0598939 * t * t + 0.0061966 * t * t * t - 0.000197 * t * t * t * t
  } else if y < 1941.0 {
    let t = y - 1920.0;
    21.20 + 0.84493 * t - 0.076100 * t * t + 0.0020936 * t * t * t
  } else if y < 1961.0 {
    let t = y - 1950.0;
    29.07 + 0.407 * t - t * t / 233.0 + t * t * t / 2547.0
  } else if y < 1986.0 {
    let t = y - 1975.0;
    45.45 + 1.067 * t - t * t / 260.0 - t * t * t / 718.0
  } else if y < 2005.0 {
    let t = y - 2000.0;
    63.86 + 0.3345 * t - 0.060374 * t * t + 0.0017275 * t * t * t + 0.000651814 * t * t * t * t + 0.00002373599 * t * t * t * t * t
  } else if y < 2050.0 {
    let t = y - 2000.0;
    62.92 + 0.32217 * t + 0.005589 * t * t
  } else {
    -20.0 + 32.0 * ((y - 1820.0) / 100.0) * ((y - 1820.0) / 100.0) - 0.5628 * (2150.0 - y)
  }
}

// ---- events ------------------------------------------------------------------------------------------------------
fn term_line(y: i64, i: i64, first: bool) -> Option<String> {
  let t = catch(|| SolarTerm::from_index(y as isize, i as isize))?;
  let cur = t.get_cursory_julian_day();
  let cj = (cur + J2000 + 0.5).floor() as i64;
  // the target longitude the term object solves for
  let d = PI / 12.0;
  let w = ((cur + 293.0) / 365.2422 * 24.0).floor() * d;
  let precise = U::qi_accurate(w);
  let (pj, ps) = split(precise);
  let lib = catch(|| U::qi_accurate2(cur)).unwrap_or(f64::NAN);
  let same = ((lib - precise).abs() * 86400.0).round() as i64;
  // fast solver vs precise solver
  let tf = U::sa_lon_t2(w) * 36525.0;
  let fast = tf - U::dtt(tf) + 1.0 / 3.0;
  let fe = ((fast - precise).abs() * 86400.0).round() as i64;
  // residual of the inverse solver on the library's own longitude series
  let tt = U::sa_lon_t(w);
  let rs = ((U::sa_lon(tt, -1) - w).abs() * RAD_TO_UAS).round().min(2.0e9) as i64;
  // independent theory: k-th 15-degree step from 270 degrees
  let target = (270.0 + 15.0 * (i as f64)) % 360.0;
  let jde_lib_tt = tt * 36525.0 + J2000; // the library's instant in TT
  let m_tt = meeus_term(target, jde_lib_tt);
  let me_tt = ((m_tt - jde_lib_tt).abs() * 86400.0).round().min(2.0e9) as i64;
  // in civil time (UT+8) with an independent TT-UT, meaningful for 1900..2150
  let yy = (m_tt - J2000) / 365.2425 + 2000.0;
  let m_ut8 = m_tt - espenak_dt(yy) / 86400.0 + 1.0 / 3.0;
  let me_ut = ((m_ut8 - (precise + J2000)).abs() * 86400.0).round().min(2.0e9) as i64;
  Some(Ev::new("tq").b("s", first).i("y", y).i("i", i).i("cj", cj).i("pj", pj).i("ps", ps).i("same", same).i("fe", fe).i("rs", rs).i("mtt", me_tt).i("mut", me_ut).done())
}

fn moon_line(mo: &LunarMonth) -> String {
  let (y, m) = (mo.get_year() as i64, mo.get_month_with_leap() as i64);
  let f = jdn_of(mo.get_first_julian_day().get_day()).0;
  // the conjunction this month starts at: nearest multiple of 2 pi
  let k = ((f as f64 - 2451551.0 + 0.5) / 29.5306).round();
  let w = k * 2.0 * PI;
  let tt = U::m_sa_lon_t(w);
  let t = tt * 36525.0;
  let precise = t - U::dtt(t) + 1.0 / 3.0;
  let (pj, ps) = split(precise);
  let tf = U::m_sa_lon_t2(w) * 36525.0;
  let fast = tf - U::dtt(tf) + 1.0 / 3.0;
  let fe = ((fast - precise).abs() * 86400.0).round() as i64;
  let rs = ((U::m_sa_lon(tt, -1, 60) - w).abs() * RAD_TO_UAS).round().min(2.0e9) as i64;
  let jde_lib_tt = t + J2000;
  // Meeus' lunation number: k = 0 at 2000-01-06
  let km = ((jde_lib_tt - 2451550.09766) / 29.530588861).round();
  let m_tt = meeus_new_moon(km);
  let me_tt = ((m_tt - jde_lib_tt).abs() * 86400.0).round().min(2.0e9) as i64;
  let yy = (m_tt - J2000) / 365.2425 + 2000.0;
  let m_ut8 = m_tt - espenak_dt(yy) / 86400.0 + 1.0 / 3.0;
  let me_ut = ((m_ut8 - (precise + J2000)).abs() * 86400.0).round().min(2.0e9) as i64;
  // the lunation number of the previous month, from its own first day: every lunation starts exactly one month
  let lun = |f: i64| ((f as f64 - 2451550.09766 + 0.5) / 29.530588861).round() as i64;
  let pkm = catch_iso(|| mo.next(-1)).and_then(|p| catch_iso(|| jdn_of(p.get_first_julian_day().get_day()).0)).map(lun).unwrap_or(-999999);
  Ev::new("sq").i("km", lun(f)).i("pkm", pkm).i("s", 0).i("y", y).i("m", m).i("f", f).i("pj", pj).i("ps", ps).i("fe", fe).i("rs", rs).i("mtt", me_tt).i("mut", me_ut).done()
}

pub fn run(ctx: &Ctx) -> usize {
  let mut rng = ctx.rng(501);
  let tyears: Vec<i64> = if false {
    let mut v: Vec<i64> = (1900..=2150).step_by(5).collect();
    v.extend_from_slice(&[1, 2, 500, 1000, 1644, 1645, 1959, 1960, 1961, 1962, 7999, 8000, 8001, 9998, 9999]);
    for _ in 0..60 {
      v.push(rng.range(1961, 9999));
    }
    for _ in 0..30 {
      v.push(rng.range(2, 1960));
    }
    v
  } else {
    (1..=9999).collect()
  };
  let parts = crate::windows::deal(tyears, ctx.threads);
  let mut total = 0usize;
  std::thread::scope(|s| {
    let hs: Vec<_> = parts.into_iter().enumerate().map(|(t, ys)| {
      s.spawn(move || {
        let mut sink = ctx.sink("Trace_C05", &format!("q{:02}", t));
        sink.segment();
        let mut first = true;
        for y in ys {
          for i in 0..24 {
            if let Some(l) = term_line(y, i, first) {
              sink.put(l);
              first = false;
            }
          }
          // the lunations of lunar year y
          let mut cur = catch_iso(|| LunarMonth::from_ym(y as isize, 1));
          let mut guard = 0;
          while let Some(mo) = cur {
            if mo.get_year() as i64 != y || guard > 13 {
              break;
            }
            guard += 1;
            if first {
              sink.put(Ev::new("begin").i("s", 1).done());
              first = false;
            }
            sink.put(moon_line(&mo));
            cur = catch_iso(|| mo.next(1));
          }
        }
        sink.total
      })
    }).collect();
    for h in hs {
      total += h.join().unwrap();
    }
  });
  // TT-UT and the low-precision closed forms: one small file
  let mut sink = ctx.sink("Trace_C05", "dt");
  sink.segment();
  sink.put(Ev::new("begin").i("s", 1).done());
  for y in -4000..=10000i64 {
    let a = U::dt_calc(y as f64 - 1e-7);
    let b = U::dt_calc(y as f64 + 1e-7);
    let c = U::dt_calc(y as f64 + 1.0 - 1e-7);
    sink.put(Ev::new("dt").i("s", 0).i("y", y).i("jump", ((b - a).abs() * 1000.0).round().min(2.0e9) as i64).i("year", ((c - b).abs() * 1000.0).round().min(2.0e9) as i64).i("v", (b * 1000.0).round().clamp(-2.0e9, 2.0e9) as i64).done());
  }
  // the inverse solvers on a raw grid of target longitudes over +-10,000 years around J2000 (no calendar involved)
  let (sstep, mstep) = if ctx.quick() { (97i64, 37i64) } else { (29, 11) };
  let mut k = -240_000i64;
  while k <= 240_000 {
    let w = k as f64 * PI / 12.0;
    let tt = U::sa_lon_t(w);
    let rs = ((U::sa_lon(tt, -1) - w).abs() * RAD_TO_UAS).round().min(2.0e9) as i64;
    let yr = (tt * 100.0 + 2000.0).floor() as i64;
    sink.put(Ev::new("rg").i("s", 0).i("t", 0).i("n", k).i("yr", yr).i("rs", rs).done());
    k += sstep;
  }
  let mut k = -123_700i64;
  while k <= 123_700 {
    let w = k as f64 * 2.0 * PI;
    let tt = U::m_sa_lon_t(w);
    let rs = ((U::m_sa_lon(tt, -1, 60) - w).abs() * RAD_TO_UAS).round().min(2.0e9) as i64;
    let yr = (tt * 100.0 + 2000.0).floor() as i64;
    sink.put(Ev::new("rg").i("s", 0).i("t", 1).i("n", k).i("yr", yr).i("rs", rs).done());
    k += mstep;
  }
  // closed forms in the era in which the calendar path uses them (1645..1960): target longitudes of those years
  for y in (1645..1960i64).step_by(1) {
    for i in 0..24i64 {
      let cur = ((y as f64 - 2000.0) * 365.2422 + 15.2184 * i as f64 - 10.0).floor();
      let w = ((cur + 293.0) / 365.2422 * 24.0).floor() * PI / 12.0;
      let lo = U::qi_low(w);
      let hi = U::qi_accurate(w);
      sink.put(Ev::new("lo").i("s", 0).i("t", 0).i("y", y).i("i", i).i("err", ((lo - hi).abs() * 86400.0).round().min(2.0e9) as i64).done());
    }
    for n in 0..13i64 {
      let jd = (y as f64 - 2000.0) * 365.2422 + 29.5306 * n as f64;
      let w = ((jd + 14.0 - 6.0) / 29.5306).floor() * 2.0 * PI;
      let lo = U::shuo_low(w);
      let t = U::m_sa_lon_t(w) * 36525.0;
      let hi = t - U::dtt(t) + 1.0 / 3.0;
      sink.put(Ev::new("lo").i("s", 0).i("t", 1).i("y", y).i("i", n).i("err", ((lo - hi).abs() * 86400.0).round().min(2.0e9) as i64).done());
    }
  }
  total + sink.total
}
