//! C03 — lunar months tile time.  Producer of `Trace_C03`.
//!   mon : one lunation of a walk by LunarMonth::next(1): label, index, first day, length; the same label
//!         through from_ym and through the uncached constructor; next(-1), next(0), next(n) for a window
//!   yr  : one lunar year: leap month, month count, day count, the listed months
use tyme4rs::tyme::lunar::{LunarMonth, LunarYear};
use tyme4rs::tyme::Tyme;

use crate::lib_util::*;
use crate::queries::month5;

fn m5(m: &LunarMonth) -> Vec<i64> {
  month5(m)
}

fn frac_ok(m: &LunarMonth) -> bool {
  jdn_of(m.get_first_julian_day().get_day()).1
}

const STEPS: [i64; 12] = [2, 3, 11, 12, 13, 14, 25, 26, -2, -12, -13, -14];

fn walk_years(ctx: &Ctx, tag: &str, ranges: Vec<(i64, i64)>) -> usize {
  let mut sink = ctx.sink("Trace_C03", tag);
  let mut ysink = ctx.sink("Trace_C03", &format!("y{}", tag));
  ysink.segment();
  let mut sg = 0i64;
  for (ya, yb) in ranges {
    sg += 1;
    sink.segment();
    let mut cur = match catch_iso(|| LunarMonth::from_ym(ya as isize, 1)) {
      Some(m) => m,
      None => {
        sink.put(Ev::new("abort").i("s", 1).i("y", ya).i("m", 1).done());
        continue;
      }
    };
    let mut ix = 0i64;
    let mut bound = (yb - ya + 2) * 13 + 5;
    loop {
      let y = cur.get_year() as i64;
      if y > yb + 1 || (y == yb + 1 && cur.get_month_with_leap() != 1) {
        break;
      }
      bound -= 1;
      if bound < 0 {
        // a walk that does not arrive is a reported non-conformance, not a hang
        sink.put(Ev::new("abort").i("s", 0).i("y", y).i("m", cur.get_month_with_leap() as i64).done());
        break;
      }
      let v = m5(&cur);
      if y >= 0 && y <= 9999 && ix == 0 || v[1] == 1 {
        // year record before the first month of a year
        if y <= yb && y <= 9999 {
          ysink.put(year_line(y));
        }
      }
      let lp = catch_iso(|| LunarYear::from_year(y as isize).get_leap_month() as i64).unwrap_or(-1);
      let fr = catch_iso(|| m5(&LunarMonth::from_ym(v[0] as isize, v[1] as isize))).unwrap_or(vec![-1; 5]);
      let nw = match catch_iso(|| LunarMonth::new(v[0] as isize, v[1] as isize)) {
        Some(Ok(m)) => m5(&m),
        _ => vec![-1; 5],
      };
      let pv = catch_iso(|| m5(&cur.next(-1))).unwrap_or(vec![-1; 5]);
      let z = catch_iso(|| m5(&cur.next(0))).unwrap_or(vec![-1; 5]);
      let nx = catch_iso(|| cur.next(1));
      let nxv = nx.as_ref().map(m5).unwrap_or(vec![-1; 5]);
      let bk = nx.as_ref().and_then(|n| catch_iso(|| m5(&n.next(-1)))).unwrap_or(vec![-1; 5]);
      let mut far: Vec<i64> = Vec::new();
      for n in STEPS {
        let r = catch_iso(|| m5(&cur.next(n as isize))).unwrap_or(vec![-1; 5]);
        far.push(n);
        far.push(r[0]);
        far.push(r[1]);
        far.push(r[4]);
      }
      sink.put(Ev::new("mon").b("s", ix == 0).i("sg", sg).i("ix", ix).i("y", v[0]).i("m", v[1]).i("n", v[2]).i("idx", v[3]).i("f", v[4]).b("ff", frac_ok(&cur)).i("lp", lp)
        .a("fr", &fr).a("nw", &nw).a("pv", &pv).a("z", &z).a("nx", &nxv).a("bk", &bk).a("far", &far).done());
      ix += 1;
      match nx {
        Some(n) => cur = n,
        None => break,
      }
    }
  }
  sink.total + ysink.total
}

fn year_line(y: i64) -> String {
  let ly = catch_iso(|| LunarYear::from_year(y as isize));
  let lp = ly.and_then(|l| catch_iso(|| l.get_leap_month() as i64)).unwrap_or(-1);
  let cnt = ly.and_then(|l| catch_iso(|| l.get_month_count() as i64)).unwrap_or(-1);
  let days = ly.and_then(|l| catch_iso(|| l.get_day_count() as i64)).unwrap_or(-1);
  let ms = ly.and_then(|l| catch_iso(|| l.get_months())).unwrap_or_default();
  let ml: Vec<i64> = ms.iter().map(|m| m.get_month_with_leap() as i64).collect();
  let mn: Vec<i64> = ms.iter().map(|m| m.get_day_count() as i64).collect();
  let mf: Vec<i64> = ms.iter().map(|m| jdn_of(m.get_first_julian_day().get_day()).0).collect();
  let my: Vec<i64> = ms.iter().map(|m| m.get_year() as i64).collect();
  // first day of the next year (absent at the end of the range)
  let nf = if y < 9999 { catch_iso(|| jdn_of(LunarMonth::from_ym(y as isize + 1, 1).get_first_julian_day().get_day()).0).unwrap_or(-1) } else { -2 };
  Ev::new("yr").i("s", 1).i("y", y).i("lp", lp).i("cnt", cnt).i("days", days).a("ml", &ml).a("mn", &mn).a("mf", &mf).a("my", &my).i("nf", nf).done()
}

pub fn run(ctx: &Ctx) -> usize {
  let ranges: Vec<(i64, i64)> = if false {
    let mut v: Vec<(i64, i64)> = vec![(0, 30), (230, 245), (1640, 1650), (1955, 1965), (7990, 8010), (9988, 9999)];
    let mut rng = ctx.rng(301);
    for _ in 0..40 {
      let a = rng.range(31, 9970);
      v.push((a, a + 9));
    }
    v
  } else {
    let mut v = Vec::new();
    let mut a = 0;
    while a <= 9999 {
      v.push((a, (a + 99).min(9999)));
      a += 100;
    }
    v
  };
  let parts = crate::windows::deal(ranges, ctx.threads);
  let mut total = 0;
  std::thread::scope(|s| {
    let hs: Vec<_> = parts.into_iter().enumerate().map(|(t, p)| s.spawn(move || walk_years(ctx, &format!("w{:02}", t), p))).collect();
    for h in hs {
      total += h.join().unwrap();
    }
  });
  total
}
