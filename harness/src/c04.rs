//! C04 — month numbers and the leap month follow the no-major-term rule.  Producer of `Trace_C04`.
//!   sui : one winter-solstice-to-winter-solstice span named by the lunar year Y whose months 1-10 it contains:
//!         the library's consecutive months from (Y-1, 10) on (label and first day), the calendar-making days of
//!         the 13 major terms from the solstice of December Y-1 to that of December Y, the stored leap months
use tyme4rs::tyme::lunar::{LunarMonth, LunarYear};
use tyme4rs::tyme::solar::SolarTerm;
use tyme4rs::tyme::Tyme;

use crate::lib_util::*;

fn sui_line(y: i64, first: bool) -> String {
  let mut my: Vec<i64> = Vec::new();
  let mut mm: Vec<i64> = Vec::new();
  let mut mf: Vec<i64> = Vec::new();
  let mut cur = catch_iso(|| LunarMonth::from_ym(y as isize - 1, 10));
  let mut n = 0;
  while let Some(m) = cur {
    my.push(m.get_year() as i64);
    mm.push(m.get_month_with_leap() as i64);
    mf.push(jdn_of(m.get_first_julian_day().get_day()).0);
    n += 1;
    if n >= 19 || (m.get_year() as i64 == y + 1 && m.get_month_with_leap() >= 2) {
      break;
    }
    cur = catch_iso(|| m.next(1));
  }
  let mut z: Vec<i64> = Vec::new();
  for k in 0..12i64 {
    z.push(catch(|| (SolarTerm::from_index(y as isize, 2 * k as isize).get_cursory_julian_day() + 2451545.5).floor() as i64).unwrap_or(-1));
  }
  z.push(catch(|| (SolarTerm::from_index(y as isize + 1, 0).get_cursory_julian_day() + 2451545.5).floor() as i64).unwrap_or(-1));
  let lp0 = catch(|| LunarYear::from_year(y as isize - 1).get_leap_month() as i64).unwrap_or(-1);
  let lp1 = catch(|| LunarYear::from_year(y as isize).get_leap_month() as i64).unwrap_or(-1);
  Ev::new("sui").b("s", first).i("y", y).a("my", &my).a("mm", &mm).a("mf", &mf).a("z", &z).i("lp0", lp0).i("lp1", lp1).done()
}

pub fn run(ctx: &Ctx) -> usize {
  let years: Vec<i64> = if false {
    let mut v: Vec<i64> = vec![27, 28, 236, 237, 241, 242, 1644, 1645, 1646, 1959, 1960, 1961, 1984, 2017, 2020, 2023, 2033, 2034, 7013, 8000, 9997, 9998];
    let mut rng = ctx.rng(401);
    for _ in 0..600 {
      v.push(rng.range(27, 9998));
    }
    v
  } else {
    (27..=9998).collect()
  };
  let parts = crate::windows::deal(years, ctx.threads);
  let mut total = 0usize;
  std::thread::scope(|s| {
    let hs: Vec<_> = parts.into_iter().enumerate().map(|(t, p)| {
      s.spawn(move || {
        let mut sink = ctx.sink("Trace_C04", &format!("s{:02}", t));
        sink.segment();
        for (i, y) in p.iter().enumerate() {
          sink.put(sui_line(*y, i == 0));
        }
        sink.total
      })
    }).collect();
    for h in hs {
      total += h.join().unwrap();
    }
  });
  total
}
