//! C06 — every day belongs to exactly one solar term.  Producer of `Trace_C06`.
//!   t  : one term (year, index): precise instant, its civil day, stepping by +-1 and by larger n against
//!        construction, name lookup, jie/qi parity
//!   d  : one civil day of a walk: the term it is assigned, the day index, that term's day and the next term's day
//!   ti : an instant (a second before / at / after a term instant, or random) and the term it is assigned
use tyme4rs::tyme::solar::{SolarDay, SolarTerm, SolarTime};
use tyme4rs::tyme::{Culture, Tyme};

use crate::c01::ymd;
use crate::daywalk::*;
use crate::lib_util::*;
use crate::windows::*;

/// (jdn, second of day) of a SolarTime
pub fn inst(t: &SolarTime) -> (i64, i64) {
  (jdn(&t.get_solar_day()), (t.get_hour() * 3600 + t.get_minute() * 60 + t.get_second()) as i64)
}

pub fn term_time(t: &SolarTerm) -> Option<SolarTime> {
  catch(|| t.get_julian_day().get_solar_time())
}

const FAR: [i64; 10] = [2, 23, 24, 25, 47, -2, -24, -25, -47, 240];

fn term_lines(ctx: &Ctx, tag: &str, years: Vec<(i64, i64)>) -> usize {
  let mut sink = ctx.sink("Trace_C06", tag);
  let mut sg = 0;
  for (ya, yb) in years {
    sink.segment();
    sg += 1;
    let mut ix = 0;
    for y in ya..=yb {
      for i in 0..24i64 {
        let t = match catch(|| SolarTerm::from_index(y as isize, i as isize)) {
          Some(t) => t,
          None => {
            sink.put(Ev::new("abort").b("s", ix == 0).i("at", y * 100 + i).done());
            ix += 1;
            continue;
          }
        };
        let tt = term_time(&t);
        let (tj, ts) = tt.as_ref().map(inst).unwrap_or((-1, -1));
        let cj = catch(|| (t.get_cursory_julian_day() + 2451545.0 + 0.5).floor() as i64).unwrap_or(-1);
        let nx = catch(|| t.next(1)).map(|n| (n.get_year() as i64, n.get_index() as i64)).unwrap_or((-1, -1));
        let pv = catch(|| t.next(-1)).map(|n| (n.get_year() as i64, n.get_index() as i64)).unwrap_or((-1, -1));
        let z = catch(|| t.next(0)).map(|n| (n.get_year() as i64, n.get_index() as i64)).unwrap_or((-1, -1));
        let nm = catch(|| SolarTerm::from_name(y as isize, &t.get_name())).map(|n| (n.get_year() as i64, n.get_index() as i64)).unwrap_or((-1, -1));
        let mut far: Vec<i64> = Vec::new();
        for n in FAR {
          // stepping by n, and constructing the term n places later directly
          let a = catch(|| t.next(n as isize));
          let b = catch(|| SolarTerm::from_index(y as isize, (i + n) as isize));
          let (ay, ai) = a.as_ref().map(|x| (x.get_year() as i64, x.get_index() as i64)).unwrap_or((-1, -1));
          let (by, bi) = b.as_ref().map(|x| (x.get_year() as i64, x.get_index() as i64)).unwrap_or((-1, -1));
          let ac = a.as_ref().and_then(|x| catch(|| (x.get_cursory_julian_day() + 2451545.5).floor() as i64)).unwrap_or(-1);
          let bc = b.as_ref().and_then(|x| catch(|| (x.get_cursory_julian_day() + 2451545.5).floor() as i64)).unwrap_or(-1);
          far.extend_from_slice(&[n, ay, ai, ac, by, bi, bc]);
        }
        sink.put(Ev::new("t").b("s", ix == 0).i("sg", sg).i("ix", ix).i("y", y).i("i", i).i("gy", t.get_year() as i64).i("gi", t.get_index() as i64)
          .b("ok", tt.is_some()).i("tj", tj).i("ts", ts).i("cj", cj)
          .a("nx", &[nx.0, nx.1]).a("pv", &[pv.0, pv.1]).a("z", &[z.0, z.1]).a("nm", &[nm.0, nm.1])
          .b("jie", t.is_jie()).b("qi", t.is_qi()).a("far", &far).done());
        ix += 1;
      }
    }
  }
  sink.total
}

fn day_line(d: &SolarDay, first: bool, _p: Option<&SolarDay>) -> String {
  let (y, m, dd) = ymd(d);
  let j = jdn(d);
  let td = catch(|| d.get_term_day());
  let (ti, tdi, ty) = td.as_ref().map(|t| (t.get_solar_term().get_index() as i64, t.get_day_index() as i64, t.get_solar_term().get_year() as i64)).unwrap_or((-1, -1, -1));
  let tj = td.as_ref().and_then(|t| catch(|| jdn(&t.get_solar_term().get_julian_day().get_solar_day()))).unwrap_or(-1);
  let nj = td.as_ref().and_then(|t| catch(|| jdn(&t.get_solar_term().next(1).get_julian_day().get_solar_day()))).unwrap_or(-1);
  // ... and the civil days of the same two terms' INSTANTS
  let tij = td.as_ref().and_then(|t| term_time(&t.get_solar_term())).map(|x| jdn(&x.get_solar_day())).unwrap_or(-1);
  let nij = td.as_ref().and_then(|t| catch(|| t.get_solar_term().next(1))).and_then(|n| term_time(&n)).map(|x| jdn(&x.get_solar_day())).unwrap_or(-1);
  let gt = catch(|| d.get_term().get_index() as i64).unwrap_or(-1);
  Ev::new("d").b("s", first).i("y", y).i("m", m).i("d", dd).i("j", j).b("ok", td.is_some()).i("ti", ti).i("td", tdi).i("ty", ty).i("tj", tj).i("nj", nj).i("tij", tij).i("nij", nij).i("gt", gt).done()
}

fn instant_lines(ctx: &Ctx, tag: &str, years: Vec<i64>, salt: u64, force: &std::collections::HashSet<(i64, i64)>) -> usize {
  let mut sink = ctx.sink("Trace_C06", tag);
  sink.segment();
  let mut rng = ctx.rng(salt);
  let mut first = true;
  for y in years {
    for i in 0..24i64 {
      if ctx.quick() && (i + y) % 3 != 0 && !force.contains(&(y, i)) {
        continue;
      }
      let t = match catch(|| SolarTerm::from_index(y as isize, i as isize)) {
        Some(t) => t,
        None => continue,
      };
      let tt = match term_time(&t) {
        Some(x) => x,
        None => continue,
      };
      let (tj, ts) = inst(&tt);
      let nt = catch(|| t.next(1)).and_then(|n| term_time(&n));
      let (nj, ns) = nt.as_ref().map(inst).unwrap_or((-1, -1));
      // a second before, at, a second after, and a random offset inside the term
      let span = if nj >= 0 { (nj - tj) * 86400 + ns - ts } else { 86400 * 14 };
      for off in [-1i64, 0, 1, rng.range(2, (span - 2).max(3))] {
        let q = match catch(|| tt.next(off as isize)) {
          Some(q) => q,
          None => continue,
        };
        let (qj, qs) = inst(&q);
        let g = catch(|| q.get_term());
        let (gy, gi) = g.as_ref().map(|x| (x.get_year() as i64, x.get_index() as i64)).unwrap_or((-1, -1));
        sink.put(Ev::new("ti").b("s", first).i("y", y).i("i", i).i("tj", tj).i("ts", ts).i("nj", nj).i("ns", ns).i("off", off).i("qj", qj).i("qs", qs).b("ok", g.is_some()).i("gy", gy).i("gi", gi).done());
        first = false;
      }
    }
  }
  sink.total
}

/// all terms of years 2..9998 whose instant lies within two minutes of a civil midnight: where "the day on which the
/// instant falls" is decided by rounding / truncation (about 660 of 240,000)
fn near_midnight_terms(ctx: &Ctx) -> Vec<(i64, i64, i64)> {
  let parts = chunks(2, 9998, ctx.threads);
  let mut out: Vec<(i64, i64, i64)> = Vec::new();
  std::thread::scope(|s| {
    let hs: Vec<_> = parts.into_iter().map(|(a, b)| {
      s.spawn(move || {
        let mut v = Vec::new();
        for y in a..=b {
          for i in 0..24i64 {
            if let Some(tt) = catch(|| SolarTerm::from_index(y as isize, i as isize)).and_then(|t| term_time(&t)) {
              let (j, sod) = inst(&tt);
              if sod < 120 || sod >= 86400 - 120 {
                v.push((y, i, j));
              }
            }
          }
        }
        v
      })
    }).collect();
    for h in hs {
      out.extend(h.join().unwrap());
    }
  });
  out
}

/// every term of years 2..9998 as a light event (label and instant only): the sequence of ALL term instants
fn all_term_instants(ctx: &Ctx) -> usize {
  let parts = chunks(2, 9998, ctx.threads);
  let mut total = 0usize;
  std::thread::scope(|s| {
    let hs: Vec<_> = parts.into_iter().enumerate().map(|(t, (a, b))| {
      s.spawn(move || {
        let mut sink = ctx.sink("Trace_C06", &format!("g{:02}", t));
        sink.segment();
        let mut first = true;
        for y in a..=b {
          for i in 0..24i64 {
            let tt = catch(|| SolarTerm::from_index(y as isize, i as isize)).and_then(|t| term_time(&t));
            let (tj, ts) = tt.as_ref().map(inst).unwrap_or((-1, -1));
            sink.put(Ev::new("tg").b("s", first).i("y", y).i("i", i).i("tj", tj).i("ts", ts).done());
            first = false;
          }
        }
        sink.total
      })
    }).collect();
    for h in hs {
      total += h.join().unwrap();
    }
  });
  total
}

pub fn run(ctx: &Ctx) -> usize {
  let light = if ctx.quick() { all_term_instants(ctx) } else { 0 };
  let mut wins = day_windows(ctx, 601, 150, 200, 1);
  let near = if ctx.quick() { near_midnight_terms(ctx) } else { Vec::new() };
  for (_, _, j) in near.iter() {
    wins.push(Window { start: Start::Jdn(*j - 2), days: 5 });
  }
  let a = walk_days(ctx, "Trace_C06", wins, day_line);
  let yranges: Vec<(i64, i64)> = if ctx.quick() {
    let mut v = vec![(1, 6), (640, 643), (1580, 1584), (1644, 1646), (1959, 1962), (2022, 2025), (7270, 7280), (8714, 8718), (9995, 9999)];
    let mut rng = ctx.rng(602);
    for _ in 0..400 {
      let a = rng.range(2, 9995);
      v.push((a, a + 2));
    }
    for (y, _, _) in near.iter() {
      v.push((*y, *y));
    }
    v
  } else {
    let mut v = Vec::new();
    let mut a = 1;
    while a <= 9999 {
      v.push((a, (a + 99).min(9999)));
      a += 100;
    }
    v
  };
  let iyears: Vec<i64> = if ctx.quick() {
    let mut v: Vec<i64> = vec![1, 2, 641, 1582, 1583, 1960, 2023, 2024, 7275, 7276, 8716, 9998, 9999];
    let mut rng = ctx.rng(603);
    for _ in 0..400 {
      v.push(rng.range(2, 9998));
    }
    v.extend(near.iter().map(|(y, _, _)| *y));
    v
  } else {
    (1..=9999).collect()
  };
  let force: std::collections::HashSet<(i64, i64)> = near.iter().map(|(y, i, _)| (*y, *i)).collect();
  let force = &force;
  let parts = deal(yranges, ctx.threads);
  let iparts = deal(iyears, ctx.threads);
  let mut b = 0usize;
  std::thread::scope(|s| {
    let hs: Vec<_> = parts.into_iter().zip(iparts.into_iter()).enumerate().map(|(t, (p, q))| {
      s.spawn(move || term_lines(ctx, &format!("t{:02}", t), p) + instant_lines(ctx, &format!("i{:02}", t), q, 6000 + t as u64, force))
    }).collect();
    for h in hs {
      b += h.join().unwrap();
    }
  });
  a + b + light
}
