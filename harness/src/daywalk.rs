//! Generic civil-day walk used by the day-granular properties: windows are dealt to threads, every
//! window is one trace segment, the per-day line is produced by the property's closure.
use tyme4rs::tyme::solar::SolarDay;

use crate::c01::{advance, start_day, ymd};
use crate::lib_util::*;
use crate::windows::*;

pub fn walk_days<F>(ctx: &Ctx, spec: &str, wins: Vec<Window>, line: F) -> usize
where
  F: Fn(&SolarDay, bool, Option<&SolarDay>) -> String + Sync,
{
  let parts = deal(wins, ctx.threads);
  let mut total = 0usize;
  let line = &line;
  std::thread::scope(|s| {
    let hs: Vec<_> = parts.into_iter().enumerate().map(|(t, ws)| {
      s.spawn(move || {
        let mut sink = ctx.sink(spec, &format!("d{:02}", t));
        for w in ws {
          sink.segment();
          let mut cur = match start_day(&w.start) {
            Some(d) => d,
            None => {
              sink.put(Ev::new("abort").i("s", 1).i("at", 0).done());
              continue;
            }
          };
          let mut prev: Option<SolarDay> = None;
          for i in 0..w.days {
            sink.put(line(&cur, i == 0, prev.as_ref()));
            if i + 1 == w.days {
              break;
            }
            match advance(&cur) {
              Some(n) => {
                prev = Some(cur);
                cur = n;
              }
              None => {
                if ymd(&cur) != (9999, 12, 31) {
                  let (y, m, d) = ymd(&cur);
                  sink.put(Ev::new("abort").i("s", 0).i("at", y * 10000 + m * 100 + d).done());
                }
                break;
              }
            }
          }
        }
        sink.total
      })
    }).collect();
    for h in hs {
      total += h.join().unwrap();
    }
  });
  total
}

pub fn jdn(d: &SolarDay) -> i64 {
  catch(|| jdn_of(d.get_julian_day().get_day()).0).unwrap_or(-1)
}
