//! C07 — day pillar and weekday advance one step per civil day.  Producer of `Trace_C07`.
//!   d : one civil day: day number, weekday by three routes, day pillar by four routes, its stem and branch
use tyme4rs::tyme::lunar::LunarDay;
use tyme4rs::tyme::solar::SolarDay;
use tyme4rs::tyme::Tyme;

use crate::c01::ymd;
use crate::daywalk::*;
use crate::lib_util::*;
use crate::windows::*;

fn line(d: &SolarDay, first: bool, prev: Option<&SolarDay>) -> String {
  let (y, m, dd) = ymd(d);
  let j = jdn(d);
  let w = catch(|| d.get_week().get_index() as i64).unwrap_or(-1);
  let w2 = catch(|| d.get_julian_day().get_week().get_index() as i64).unwrap_or(-1);
  let ld = catch_iso(|| d.get_lunar_day());
  let (ly, lm, ldd) = ld.as_ref().map(|l| (l.get_year() as i64, l.get_month() as i64, l.get_day() as i64)).unwrap_or((-1, 0, 0));
  let w3 = ld.as_ref().and_then(|l| catch_iso(|| l.get_week().get_index() as i64)).unwrap_or(-1);
  let p = ld.as_ref().and_then(|l| catch_iso(|| l.get_sixty_cycle().get_index() as i64)).unwrap_or(-1);
  let ps = ld.as_ref().and_then(|l| catch_iso(|| l.get_sixty_cycle().get_heaven_stem().get_index() as i64)).unwrap_or(-1);
  let pb = ld.as_ref().and_then(|l| catch_iso(|| l.get_sixty_cycle().get_earth_branch().get_index() as i64)).unwrap_or(-1);
  let p2 = catch_iso(|| d.get_sixty_cycle_day().get_sixty_cycle().get_index() as i64).unwrap_or(-1);
  let p3 = if ly >= 0 { catch_iso(|| LunarDay::from_ymd(ly as isize, lm as isize, ldd as usize).get_sixty_cycle().get_index() as i64).unwrap_or(-1) } else { -1 };
  let p4 = ld.as_ref().and_then(|l| catch_iso(|| l.get_sixty_cycle_day().get_sixty_cycle().get_index() as i64)).unwrap_or(-1);
  // fifth route: the previous day's lunar day, already asked for its own views (which fills its per-value memos),
  // stepped by one; -2 = no previous day in this segment
  let stepped = prev.and_then(|q| catch_iso(|| {
    let l = q.get_lunar_day();
    let _ = catch(|| l.get_sixty_cycle_day());
    let _ = catch(|| l.get_solar_day());
    l.next(1)
  }));
  let (p5, p6, w5) = match (prev, stepped.as_ref()) {
    (None, _) => (-2, -2, -2),
    (Some(_), None) => (-1, -1, -1),
    (Some(_), Some(l)) => (
      catch_iso(|| l.get_sixty_cycle_day().get_sixty_cycle().get_index() as i64).unwrap_or(-1),
      catch_iso(|| l.get_sixty_cycle().get_index() as i64).unwrap_or(-1),
      catch_iso(|| l.get_week().get_index() as i64).unwrap_or(-1),
    ),
  };
  Ev::new("d").b("s", first).i("y", y).i("m", m).i("d", dd).i("j", j).i("w", w).i("w2", w2).i("w3", w3)
    .i("p", p).i("p2", p2).i("p3", p3).i("p4", p4).i("p5", p5).i("p6", p6).i("w5", w5).i("ps", ps).i("pb", pb).i("ld", ldd).done()
}

pub fn run(ctx: &Ctx) -> usize {
  let mut wins = day_windows(ctx, 701, 300, 300, 2);
  if ctx.quick() {
    // two days in mid-January of EVERY year: the weeks before the lunar new year are where one wrong entry of the
    // leap-month table (or one mislabelled lunation) shows in the civil <-> lunar conversion
    for y in 30..=9998i64 {
      if (236..=240).contains(&y) {
        continue; // reform seam: covered (with its known findings) by the catalogue windows
      }
      wins.push(Window { start: Start::Ymd(y, 1, 15), days: 2 });
    }
  }
  walk_days(ctx, "Trace_C07", wins, line)
}
