//! C16 — child limit and fortunes follow from birth instant, gender and the next Jie.  Producer of `Trace_C16`.
//!   cl : one (birth instant, gender): year stem, direction, the Jie instants on both sides, the counts, the end
//!        instant, the first 12 decade fortunes and 20 yearly fortunes
//!   pv : the same birth through the three other shipped strategies (their public get_info)
use tyme4rs::tyme::eightchar::provider::{China95ChildLimitProvider, ChildLimitProvider, LunarSect1ChildLimitProvider, LunarSect2ChildLimitProvider};
use tyme4rs::tyme::eightchar::{ChildLimit, ChildLimitInfo};
use tyme4rs::tyme::enums::Gender;
use tyme4rs::tyme::jd::JulianDay;
use tyme4rs::tyme::solar::{SolarTerm, SolarTime};
use tyme4rs::tyme::Tyme;

use crate::c06::{inst, term_time};
use crate::lib_util::*;

fn time_at(j: i64, s: i64) -> Option<SolarTime> {
  catch(|| {
    let d = JulianDay::from_julian_day(j as f64 - 0.5).get_solar_day();
    SolarTime::from_ymd_hms(d.get_year(), d.get_month(), d.get_day(), (s / 3600) as usize, ((s / 60) % 60) as usize, (s % 60) as usize)
  })
}

fn fields(t: &SolarTime) -> Vec<i64> {
  vec![t.get_year() as i64, t.get_month() as i64, t.get_day() as i64, (t.get_hour() * 3600 + t.get_minute() * 60 + t.get_second()) as i64]
}

fn info_line(p: i64, birth: &SolarTime, jie: &SolarTerm, info: Option<ChildLimitInfo>) -> String {
  let (bj, bs) = inst(birth);
  let jt = term_time(jie);
  let (gj, gs) = jt.as_ref().map(inst).unwrap_or((-1, -1));
  let c: Vec<i64> = info.as_ref().map(|i| vec![i.get_year_count() as i64, i.get_month_count() as i64, i.get_day_count() as i64, i.get_hour_count() as i64, i.get_minute_count() as i64]).unwrap_or(vec![-9; 5]);
  let (ej, es) = info.as_ref().map(|i| inst(&i.get_end_time())).unwrap_or((-1, -1));
  let st = info.as_ref().map(|i| inst(&i.get_start_time())).unwrap_or((-1, -1));
  // the double-hour index of birth and Jie for the strategy that counts by double-hours (23:00 counts as 11)
  let zhi = |t: &SolarTime| -> i64 { if t.get_hour() == 23 { 11 } else { ((t.get_hour() + 1) / 2) as i64 } };
  let jz = jt.as_ref().map(zhi).unwrap_or(-1);
  Ev::new("pv").i("s", 0).i("p", p).a("b", &fields(birth)).i("bj", bj).i("bs", bs).i("gj", gj).i("gs", gs).i("bz", zhi(birth)).i("jz", jz).b("ok", info.is_some()).a("c", &c).i("ej", ej).i("es", es).a("st", &[st.0, st.1]).done()
}

fn birth_lines(sink: &mut Sink, birth: &SolarTime, man: bool) {
  let (bj, bs) = inst(birth);
  let g = if man { Gender::MAN } else { Gender::WOMAN };
  let cl = catch_iso(|| ChildLimit::from_solar_time(*birth, g));
  // the Jie on or before birth and the next one, from the term objects
  let term = catch_iso(|| birth.get_term());
  let pj = term.as_ref().and_then(|t| catch(|| if t.is_jie() { t.clone() } else { t.next(-1) }));
  let nj = pj.as_ref().and_then(|t| catch(|| t.next(2)));
  let (pjj, pjs) = pj.as_ref().and_then(term_time).as_ref().map(inst).unwrap_or((-1, -1));
  let (njj, njs) = nj.as_ref().and_then(term_time).as_ref().map(inst).unwrap_or((-1, -1));
  // the Lichun instant of the birth's civil year and the index of the Jie on or before birth: what the year and month
  // pillars of the birth instant follow from
  let (lj, ls) = catch_iso(|| SolarTerm::from_index(birth.get_year(), 3)).as_ref().and_then(term_time).as_ref().map(inst).unwrap_or((-1, -1));
  let gi = pj.as_ref().map(|t| t.get_index() as i64).unwrap_or(-1);
  let ec = cl.as_ref().map(|c| c.get_eight_char());
  let yp = ec.as_ref().map(|e| e.get_year().get_index() as i64).unwrap_or(-9);
  let mp = ec.as_ref().map(|e| e.get_month().get_index() as i64).unwrap_or(-9);
  let hp = ec.as_ref().map(|e| e.get_hour().get_index() as i64).unwrap_or(-9);
  let fwd = cl.as_ref().map(|c| c.is_forward() as i64).unwrap_or(-9);
  let c: Vec<i64> = cl.as_ref().map(|i| vec![i.get_year_count() as i64, i.get_month_count() as i64, i.get_day_count() as i64, i.get_hour_count() as i64, i.get_minute_count() as i64]).unwrap_or(vec![-9; 5]);
  let (ej, es) = cl.as_ref().map(|i| inst(&i.get_end_time())).unwrap_or((-1, -1));
  let ey = cl.as_ref().map(|i| i.get_end_time().get_year() as i64).unwrap_or(-9);
  let st = cl.as_ref().map(|i| inst(&i.get_start_time())).unwrap_or((-1, -1));
  let ages = cl.as_ref().map(|c| vec![c.get_start_age() as i64, c.get_end_age() as i64, c.get_start_sixty_cycle_year().get_year() as i64, c.get_end_sixty_cycle_year().get_year() as i64]).unwrap_or(vec![-9; 4]);
  let mut dec: Vec<i64> = Vec::new();
  let mut fo: Vec<i64> = Vec::new();
  if let Some(c) = cl.as_ref() {
    let d0 = c.get_start_decade_fortune();
    for k in 0..12 {
      if let Some(d) = catch_iso(|| d0.next(k)) {
        let sy = catch_iso(|| d.get_start_sixty_cycle_year().get_year() as i64).unwrap_or(-9);
        let eyy = catch_iso(|| d.get_end_sixty_cycle_year().get_year() as i64).unwrap_or(-9);
        dec.extend_from_slice(&[d.get_index() as i64, d.get_sixty_cycle().get_index() as i64, d.get_start_age() as i64, d.get_end_age() as i64, sy, eyy]);
      }
    }
    let f0 = c.get_start_fortune();
    for k in 0..20 {
      if let Some(f) = catch_iso(|| f0.next(k)) {
        let sy = catch_iso(|| f.get_sixty_cycle_year().get_year() as i64).unwrap_or(-9);
        fo.extend_from_slice(&[f.get_index() as i64, f.get_sixty_cycle().get_index() as i64, f.get_age() as i64, sy]);
      }
    }
  }
  sink.put(Ev::new("cl").i("s", 0).a("b", &fields(birth)).i("bj", bj).i("bs", bs).b("man", man).b("ok", cl.is_some()).i("yp", yp).i("mp", mp).i("hp", hp).i("fwd", fwd).i("lj", lj).i("ls", ls).i("gi", gi)
    .i("pjj", pjj).i("pjs", pjs).i("njj", njj).i("njs", njs).a("c", &c).i("ej", ej).i("es", es).i("ey", ey).a("st", &[st.0, st.1]).a("ages", &ages).a("dec", &dec).a("fo", &fo).done());
  // the other strategies, on the governing Jie the direction selects
  if let (Some(c), Some(pj), Some(nj)) = (cl.as_ref(), pj.as_ref(), nj.as_ref()) {
    let jie = if c.is_forward() { nj } else { pj };
    sink.put(info_line(1, birth, jie, catch_iso(|| China95ChildLimitProvider::new().get_info(*birth, jie.clone()))));
    sink.put(info_line(2, birth, jie, catch_iso(|| LunarSect1ChildLimitProvider::new().get_info(*birth, jie.clone()))));
    sink.put(info_line(3, birth, jie, catch_iso(|| LunarSect2ChildLimitProvider::new().get_info(*birth, jie.clone()))));
  }
}

pub fn run(ctx: &Ctx) -> usize {
  let mut sink = ctx.sink("Trace_C16", "cl");
  sink.segment();
  sink.put(Ev::new("begin").i("s", 1).done());
  let mut rng = ctx.rng(1601);
  let n = if ctx.quick() { 9000 } else { 60000 };
  for k in 0..n {
    // births 0002..9990: random, within seconds of a Jie, on month / year ends, around October 1582
    let (j, s) = match k % 6 {
      0 => {
        let y = rng.range(2, 9986);
        let i = 2 * rng.range(0, 11) + 1;
        match catch(|| SolarTerm::from_index(y as isize, i as isize)).and_then(|t| term_time(&t)).and_then(|t| catch(|| t.next(rng.range(-3, 3) as isize))) {
          Some(t) => inst(&t),
          None => continue,
        }
      }
      1 => {
        // last / first days of months
        let j = crate::windows::sample_day(&mut rng, 1721424 + 500, 5369000);
        match catch(|| JulianDay::from_julian_day(j as f64 - 0.5).get_solar_day()) {
          Some(d) => (j - d.get_day() as i64 + *rng.pick(&[0i64, 1]), *rng.pick(&[0i64, 86399, 43200, 82800, 3599])),
          None => continue,
        }
      }
      2 => (rng.range(2295000, 2299400), rng.range(0, 86399)), // 1571..1583: limits that end around October 1582
      3 => {
        // within a few days of the Lichun instant of any year (in January under the Julian calendar): where the year turns
        let y = rng.range(2, 9986);
        match catch(|| SolarTerm::from_index(y as isize, 3)).and_then(|t| term_time(&t)).and_then(|t| catch(|| t.next(rng.range(-6 * 86400, 6 * 86400) as isize))) {
          Some(t) => inst(&t),
          None => continue,
        }
      }
      _ => (crate::windows::sample_day(&mut rng, 1721424 + 500, 5369000), rng.range(0, 86399)),
    };
    // the reform-seam windows belong to C02's known findings (the lunar date of those civil days is what is wrong there)
    if crate::windows::in_seam(j) {
      continue;
    }
    if k % 6 == 0 {
      // both sides of the same Jie back to back (after it, then before it): the governing Jie must not stick
      for off in [60i64, -60, 2, -2] {
        let (jj, ss) = if s + off >= 0 && s + off < 86400 { (j, s + off) } else { continue };
        if let Some(t) = time_at(jj, ss) {
          birth_lines(&mut sink, &t, k % 4 == 0);
        }
      }
    }
    if let Some(t) = time_at(j, s) {
      birth_lines(&mut sink, &t, k % 2 == 0);
      if k % 3 == 0 {
        birth_lines(&mut sink, &t, k % 2 != 0);
      }
    }
  }
  sink.total
}
