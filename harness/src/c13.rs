//! C13 — containers list exactly their parts.  Producer of `Trace_C13`.
//!   cy  : civil year: half-years, seasons, months and their nesting; day count vs the months' day counts
//!   cm  : civil month: the listed days (day-of-month numbers and day numbers), the day count, its season
//!   ly  : lunar year: listed month labels, month count, leap month
//!   lmo : lunar month: listed days (numbers and civil day numbers), first day, length
//!   dh  : a day: the 13 slots of the lunar day and the 12 double-hours of the sexagenary day
//!   sxm : a sexagenary month: listed days, its Jie day and the next Jie day
use tyme4rs::tyme::jd::JulianDay;
use tyme4rs::tyme::lunar::{LunarMonth, LunarYear};
use tyme4rs::tyme::sixtycycle::SixtyCycleMonth;
use tyme4rs::tyme::solar::{SolarDay, SolarHalfYear, SolarMonth, SolarSeason, SolarTerm, SolarYear};

use crate::c06::inst;
use crate::daywalk::jdn;
use crate::lib_util::*;

fn civil_year(y: i64, first: bool) -> String {
  let sy = catch(|| SolarYear::from_year(y as isize));
  let mut v_h: Vec<i64> = Vec::new();
  let mut v_s: Vec<i64> = Vec::new();
  let mut v_m: Vec<i64> = Vec::new();
  let mut hm: Vec<i64> = Vec::new();
  let mut hs: Vec<i64> = Vec::new();
  let mut sm: Vec<i64> = Vec::new();
  let mut ms: Vec<i64> = Vec::new();
  let mut sum = 0i64;
  let mut ok = sy.is_some();
  if let Some(sy) = sy {
    match catch(|| sy.get_half_years()) {
      Some(l) => {
        for h in l.iter() {
          v_h.push(h.get_year() as i64);
          v_h.push(h.get_index() as i64);
          for m in catch(|| h.get_months()).unwrap_or_default() {
            hm.push(m.get_year() as i64 * 100 + m.get_month() as i64);
          }
          for s in catch(|| h.get_seasons()).unwrap_or_default() {
            hs.push(s.get_year() as i64 * 10 + s.get_index() as i64);
          }
        }
      }
      None => ok = false,
    }
    match catch(|| sy.get_seasons()) {
      Some(l) => {
        for s in l.iter() {
          v_s.push(s.get_year() as i64);
          v_s.push(s.get_index() as i64);
          for m in catch(|| s.get_months()).unwrap_or_default() {
            sm.push(m.get_year() as i64 * 100 + m.get_month() as i64);
          }
        }
      }
      None => ok = false,
    }
    match catch(|| sy.get_months()) {
      Some(l) => {
        for m in l.iter() {
          v_m.push(m.get_year() as i64);
          v_m.push(m.get_month() as i64);
          ms.push(catch(|| m.get_season().get_index() as i64).unwrap_or(-9));
          sum += catch(|| m.get_day_count() as i64).unwrap_or(-1000);
        }
      }
      None => ok = false,
    }
  }
  let ylen = catch(|| SolarYear::from_year(y as isize).get_day_count() as i64).unwrap_or(-1);
  // the same containers constructed directly
  let direct_ok = catch(|| {
    SolarHalfYear::from_index(y as isize, 1).get_months().len() == 6 && SolarSeason::from_index(y as isize, 3).get_months().len() == 3
  }).unwrap_or(false);
  Ev::new("cy").b("s", first).i("y", y).b("ok", ok && direct_ok).a("h", &v_h).a("q", &v_s).a("mo", &v_m).a("hm", &hm).a("hs", &hs).a("sm", &sm).a("ms", &ms).i("sum", sum).i("ylen", ylen).done()
}

fn civil_month(y: i64, m: i64) -> String {
  let mo = catch(|| SolarMonth::from_ym(y as isize, m as usize));
  let days: Option<Vec<SolarDay>> = mo.and_then(|mo| catch(|| mo.get_days()));
  let dn: Vec<i64> = days.as_ref().map(|l| l.iter().map(|d| d.get_day() as i64).collect()).unwrap_or_default();
  let dj: Vec<i64> = days.as_ref().map(|l| l.iter().map(jdn).collect()).unwrap_or_default();
  let same_month = days.as_ref().map(|l| l.iter().all(|d| d.get_year() as i64 == y && d.get_month() as i64 == m)).unwrap_or(false);
  let cnt = mo.and_then(|mo| catch(|| mo.get_day_count() as i64)).unwrap_or(-1);
  // day-of-year of the first and last day
  let doy: Vec<i64> = days.as_ref().map(|l| vec![l.first().and_then(|d| catch(|| d.get_index_in_year() as i64)).unwrap_or(-1), l.last().and_then(|d| catch(|| d.get_index_in_year() as i64)).unwrap_or(-1)]).unwrap_or(vec![-1, -1]);
  Ev::new("cm").i("s", 0).i("y", y).i("m", m).b("ok", days.is_some()).a("dn", &dn).a("dj", &dj).b("same", same_month).i("cnt", cnt).a("doy", &doy).done()
}

fn lunar_year(y: i64) -> Vec<String> {
  let mut out = Vec::new();
  let ly = catch_iso(|| LunarYear::from_year(y as isize));
  let ms: Option<Vec<LunarMonth>> = ly.and_then(|l| catch_iso(|| l.get_months()));
  let labels: Vec<i64> = ms.as_ref().map(|l| l.iter().map(|m| m.get_month_with_leap() as i64).collect()).unwrap_or_default();
  let years_ok = ms.as_ref().map(|l| l.iter().all(|m| m.get_year() as i64 == y)).unwrap_or(false);
  let lp = ly.and_then(|l| catch_iso(|| l.get_leap_month() as i64)).unwrap_or(-1);
  let cnt = ly.and_then(|l| catch_iso(|| l.get_month_count() as i64)).unwrap_or(-1);
  out.push(Ev::new("ly").i("s", 0).i("y", y).b("ok", ms.is_some()).a("ml", &labels).b("yok", years_ok).i("lp", lp).i("cnt", cnt).done());
  for m in ms.unwrap_or_default() {
    let days = catch_iso(|| m.get_days());
    let dn: Vec<i64> = days.as_ref().map(|l| l.iter().map(|d| d.get_day() as i64).collect()).unwrap_or_default();
    let dj: Vec<i64> = days.as_ref().map(|l| l.iter().map(|d| catch_iso(|| jdn(&d.get_solar_day())).unwrap_or(-1)).collect()).unwrap_or_default();
    let same = days.as_ref().map(|l| l.iter().all(|d| d.get_year() == m.get_year() && d.get_month() == m.get_month_with_leap())).unwrap_or(false);
    out.push(Ev::new("lmo").i("s", 0).i("y", y).i("m", m.get_month_with_leap() as i64).b("ok", days.is_some()).a("dn", &dn).a("dj", &dj).b("same", same)
      .i("f", jdn_of(m.get_first_julian_day().get_day()).0).i("n", m.get_day_count() as i64).done());
  }
  out
}

fn day_hours(j: i64) -> Option<String> {
  let d = catch(|| JulianDay::from_julian_day(j as f64 - 0.5).get_solar_day())?;
  let ld = catch_iso(|| d.get_lunar_day())?;
  let lh = catch_iso(|| ld.get_hours());
  let lslots: Vec<i64> = lh.as_ref().map(|l| l.iter().flat_map(|h| {
    let t = catch_iso(|| h.get_solar_time());
    let (a, b) = t.as_ref().map(inst).unwrap_or((-1, -1));
    vec![a, b]
  }).collect()).unwrap_or_default();
  let lsame = lh.as_ref().map(|l| l.iter().all(|h| h.get_lunar_day() == ld)).unwrap_or(false);
  let sd = catch_iso(|| d.get_sixty_cycle_day())?;
  let sh = catch_iso(|| sd.get_hours());
  let sslots: Vec<i64> = sh.as_ref().map(|l| l.iter().flat_map(|h| {
    let (a, b) = inst(&h.get_solar_time());
    vec![a, b]
  }).collect()).unwrap_or_default();
  let sbr: Vec<i64> = sh.as_ref().map(|l| l.iter().map(|h| h.get_sixty_cycle().get_earth_branch().get_index() as i64).collect()).unwrap_or_default();
  let sdp: Vec<i64> = sh.as_ref().map(|l| l.iter().map(|h| h.get_day().get_index() as i64).collect()).unwrap_or_default();
  let p = sd.get_sixty_cycle().get_index() as i64;
  Some(Ev::new("dh").i("s", 0).i("j", j).b("lok", lh.is_some()).a("ls", &lslots).b("lsame", lsame).b("sok", sh.is_some()).a("ss", &sslots).a("sb", &sbr).a("sdp", &sdp).i("p", p).done())
}

fn sx_month(y: i64, k: i64) -> String {
  let m = catch_iso(|| SixtyCycleMonth::from_index(y as isize, k as isize));
  let days = m.as_ref().and_then(|m| catch_iso(|| m.get_days()));
  let dj: Vec<i64> = days.as_ref().map(|l| l.iter().map(|d| jdn(&d.get_solar_day())).collect()).unwrap_or_default();
  let mp = m.as_ref().map(|m| m.get_sixty_cycle().get_index() as i64).unwrap_or(-1);
  let same = days.as_ref().map(|l| l.iter().all(|d| d.get_month().get_index() as i64 == mp)).unwrap_or(false);
  let a = catch(|| jdn(&SolarTerm::from_index(y as isize, 3 + 2 * k as isize).get_julian_day().get_solar_day())).unwrap_or(-1);
  let b = catch(|| jdn(&SolarTerm::from_index(y as isize, 5 + 2 * k as isize).get_julian_day().get_solar_day())).unwrap_or(-1);
  Ev::new("sxm").i("s", 0).i("y", y).i("o", k).b("ok", days.is_some()).a("dj", &dj).b("same", same).i("a", a).i("b", b).done()
}

pub fn run(ctx: &Ctx) -> usize {
  let mut rng = ctx.rng(1301);
  let years: Vec<i64> = if false {
    let mut v: Vec<i64> = vec![1, 2, 4, 100, 1000, 1500, 1581, 1582, 1583, 1600, 1700, 1900, 2000, 2023, 2024, 2100, 9998, 9999];
    for _ in 0..380 {
      v.push(rng.range(1, 9999));
    }
    v
  } else {
    (1..=9999).collect()
  };
  let lyears: Vec<i64> = if false {
    let mut v: Vec<i64> = vec![0, 1, 8, 9, 23, 24, 25, 236, 239, 240, 1582, 2020, 2023, 2033, 9998, 9999];
    for _ in 0..80 {
      v.push(rng.range(0, 9999));
    }
    v
  } else {
    (0..=9999).collect()
  };
  let sxyears: Vec<i64> = if ctx.quick() { (0..200).map(|_| rng.range(2, 9997)).chain([1582i64, 641, 9493].into_iter()).collect() } else { (2..=9997).step_by(4).collect() };
  let ndays = if ctx.quick() { 1500 } else { 60000 };
  // days for the hour lists: anywhere outside the reform seams (their lunar dates are C02 findings)
  let mut djs: Vec<i64> = (0..ndays).map(|_| crate::windows::sample_day(&mut rng, 1721424 + 40, 5373484 - 40)).collect();
  // the days on both sides of the October-1582 gap (the first slot of a sexagenary day starts at 23:00 of the previous
  // civil day: for 1582-10-15 that is 1582-10-04), the turn of a century, both ends of the supported range
  djs.extend(2299150i64..=2299175);
  djs.extend([2341972i64, 2341973, 2342031, 2342032, 2415020, 2415021, 2451544, 2451545, 1721424 + 41, 5373484 - 41]);
  let yp = crate::windows::deal(years, ctx.threads);
  let lp = crate::windows::deal(lyears, ctx.threads);
  let sp = crate::windows::deal(sxyears, ctx.threads);
  let dp = crate::windows::deal(djs, ctx.threads);
  let mut total = 0usize;
  std::thread::scope(|s| {
    let hs: Vec<_> = yp.into_iter().zip(lp.into_iter()).zip(sp.into_iter().zip(dp.into_iter())).enumerate().map(|(t, ((ys, lys), (sxs, ds)))| {
      s.spawn(move || {
        let mut sink = ctx.sink("Trace_C13", &format!("c{:02}", t));
        sink.segment();
        let mut first = true;
        for y in ys {
          sink.put(civil_year(y, first));
          first = false;
          for m in 1..=12 {
            sink.put(civil_month(y, m));
          }
        }
        if first {
          sink.put(civil_year(2000, true));
        }
        for y in lys {
          for l in lunar_year(y) {
            sink.put(l);
          }
        }
        for y in sxs {
          for k in 0..12 {
            sink.put(sx_month(y, k));
          }
        }
        for j in ds {
          if let Some(l) = day_hours(j) {
            sink.put(l);
          }
        }
        sink.total
      })
    }).collect();
    for h in hs {
      total += h.join().unwrap();
    }
  });
  total
}
