//! C20 — festival and legal-holiday lookups are consistent in both directions.  Producer of `Trace_C20`.
//!   sd  : one civil date: the civil festival found on it (two routes)
//!   sf  : one (year, index): the civil festival by index, and stepping it
//!   ly  : one lunar year: its Qingming, winter-solstice and last day as lunar dates, every festival by index
//!   ld  : one lunar date: the lunar festival found on it (two routes)
//!   lf  : stepping a lunar festival
//!   hr  : one record of the raw legal-holiday table and what the lookups say about it
//!   hd  : one civil date 2000..2030: whether a holiday record is found
//!   hs  : stepping through the holiday records
use tyme4rs::tyme::festival::{LunarFestival, SolarFestival};
use tyme4rs::tyme::holiday::{LegalHoliday, LEGAL_HOLIDAY_DATA};
use tyme4rs::tyme::jd::JulianDay;
use tyme4rs::tyme::lunar::{LunarDay, LunarMonth, LunarYear};
use tyme4rs::tyme::solar::{SolarDay, SolarTerm};
use tyme4rs::tyme::Tyme;

use crate::daywalk::jdn;
use crate::lib_util::*;

fn civil_dates(ctx: &Ctx, sink: &mut Sink) {
  let (a, b) = (2415021i64, 2488434i64); // 1900-01-01 .. 2100-12-31
  let mut j = a;
  let step = if ctx.quick() { 1 } else { 1 };
  while j <= b {
    if let Some(d) = catch(|| JulianDay::from_julian_day(j as f64 - 0.5).get_solar_day()) {
      let (y, m, dd) = (d.get_year() as i64, d.get_month() as i64, d.get_day() as i64);
      // quick: the days around every festival date plus every 7th day; thorough: every day
      let near = [(1, 1), (3, 8), (3, 12), (5, 1), (5, 4), (6, 1), (7, 1), (8, 1), (9, 10), (10, 1)].iter().any(|(fm, fd)| *fm == m && (dd - fd).abs() <= 1);
      if !ctx.quick() || near || j % 7 == 0 {
        let f1 = catch(|| SolarFestival::from_ymd(y as isize, m as usize, dd as usize)).map(|o| o.map(|f| f.get_index() as i64).unwrap_or(-1)).unwrap_or(-9);
        let f2 = catch(|| d.get_festival()).map(|o| o.map(|f| f.get_index() as i64).unwrap_or(-1)).unwrap_or(-9);
        let fd = catch(|| SolarFestival::from_ymd(y as isize, m as usize, dd as usize)).flatten().map(|f| jdn(&f.get_day())).unwrap_or(-1);
        sink.put(Ev::new("sd").i("s", 0).i("y", y).i("m", m).i("d", dd).i("j", j).i("f1", f1).i("f2", f2).i("fd", fd).done());
      }
    }
    j += step;
  }
}

fn civil_index(ctx: &Ctx, sink: &mut Sink) {
  let mut rng = ctx.rng(2001);
  let years: Vec<i64> = if ctx.quick() {
    let mut v: Vec<i64> = vec![1, 1932, 1933, 1940, 1941, 1949, 1950, 1978, 1979, 1984, 1985, 2024, 9998];
    for _ in 0..900 {
      v.push(rng.range(1, 9998));
    }
    v
  } else {
    (1..=9998).collect()
  };
  for y in years {
    for i in 0..=10i64 {
      let f = catch(|| SolarFestival::from_index(y as isize, i as usize));
      let (ok, fi, fy, fm, fd, st) = match &f {
        Some(Some(x)) => (1, x.get_index() as i64, x.get_day().get_year() as i64, x.get_day().get_month() as i64, x.get_day().get_day() as i64, x.get_start_year() as i64),
        Some(None) => (0, -1, 0, 0, 0, 0),
        None => (-9, -1, 0, 0, 0, 0),
      };
      // stepping
      let mut nx: Vec<i64> = Vec::new();
      if let Some(Some(x)) = &f {
        for n in [0i64, 1, -1, 9, 10, -10, 11, 25, -25] {
          let r = catch(|| x.next(n as isize));
          match r {
            Some(Some(z)) => nx.extend_from_slice(&[n, 1, z.get_day().get_year() as i64, z.get_index() as i64]),
            Some(None) => nx.extend_from_slice(&[n, 0, 0, 0]),
            None => nx.extend_from_slice(&[n, -9, 0, 0]),
          }
        }
      }
      sink.put(Ev::new("sf").i("s", 0).i("y", y).i("i", i).i("ok", ok).i("fi", fi).a("day", &[fy, fm, fd]).i("st", st).a("nx", &nx).done());
    }
  }
}

fn l2(d: &LunarDay) -> (i64, i64, i64) {
  (d.get_year() as i64, d.get_month() as i64, d.get_day() as i64)
}

fn lunar(ctx: &Ctx, sink: &mut Sink) {
  let mut rng = ctx.rng(2002);
  let years: Vec<i64> = if ctx.quick() {
    // 1536, 1574, 3358, 9962: the lunar year ends with a leap 12th month (New Year's Eve is in month -12); 2033: leap 11th
    let mut v: Vec<i64> = vec![1, 2, 1536, 1574, 1900, 1984, 2001, 2012, 2020, 2023, 2024, 2033, 2100, 3358, 9962, 9997, 9998];
    for _ in 0..60 {
      v.push(rng.range(1900, 2100));
    }
    for _ in 0..120 {
      v.push(rng.range(245, 9997));
    }
    v
  } else {
    let mut v: Vec<i64> = (1900..=2100).collect();
    for _ in 0..1500 {
      v.push(rng.range(245, 9997));
    }
    v
  };
  for y in years {
    // the three movable anchors of the year as lunar dates
    let qm = catch_iso(|| l2(&SolarTerm::from_index(y as isize, 7).get_julian_day().get_solar_day().get_lunar_day())).unwrap_or((-9, -9, -9));
    let dz = catch_iso(|| l2(&SolarTerm::from_index(y as isize, 24).get_julian_day().get_solar_day().get_lunar_day())).unwrap_or((-9, -9, -9));
    let months = catch_iso(|| LunarYear::from_year(y as isize).get_months()).unwrap_or_default();
    let eve = months.last().map(|m| (m.get_year() as i64, m.get_month_with_leap() as i64, m.get_day_count() as i64)).unwrap_or((-9, -9, -9));
    // every festival by index
    let mut fx: Vec<i64> = Vec::new();
    for i in 0..=13i64 {
      match catch_iso(|| LunarFestival::from_index(y as isize, i as usize)) {
        Some(Some(f)) => {
          let d = f.get_day();
          let back = catch_iso(|| LunarFestival::from_ymd(d.get_year(), d.get_month(), d.get_day())).map(|o| o.map(|g| g.get_index() as i64).unwrap_or(-1)).unwrap_or(-9);
          fx.extend_from_slice(&[i, 1, f.get_index() as i64, d.get_year() as i64, d.get_month() as i64, d.get_day() as i64, back]);
        }
        Some(None) => fx.extend_from_slice(&[i, 0, -1, 0, 0, 0, -1]),
        None => fx.extend_from_slice(&[i, -9, -1, 0, 0, 0, -1]),
      }
    }
    sink.put(Ev::new("ly").i("s", 0).i("y", y).a("qm", &[qm.0, qm.1, qm.2]).a("dz", &[dz.0, dz.1, dz.2]).a("eve", &[eve.0, eve.1, eve.2]).a("fx", &fx).done());
    // every lunar date of the year
    for mo in months.iter() {
      let (my, mm) = (mo.get_year() as i64, mo.get_month_with_leap() as i64);
      for d in 1..=mo.get_day_count() as i64 {
        let interesting = !ctx.quick() || d <= 3 || d >= 28 || d == 15 || d == 8 || d == 9 || d == 7 || d == 5 || (my, mm, d) == qm || (my, mm, d) == dz;
        if !interesting {
          continue;
        }
        let f1 = catch_iso(|| LunarFestival::from_ymd(my as isize, mm as isize, d as usize)).map(|o| o.map(|f| f.get_index() as i64).unwrap_or(-1)).unwrap_or(-9);
        let f2 = catch_iso(|| LunarDay::from_ymd(my as isize, mm as isize, d as usize).get_festival()).map(|o| o.map(|f| f.get_index() as i64).unwrap_or(-1)).unwrap_or(-9);
        sink.put(Ev::new("ld").i("s", 0).i("y", my).i("m", mm).i("d", d).i("f1", f1).i("f2", f2).a("qm", &[qm.1, qm.2]).a("dz", &[dz.1, dz.2]).a("eve", &[eve.1, eve.2]).done());
      }
    }
    // stepping
    for i in [0i64, 4, 10, 12] {
      if let Some(Some(f)) = catch_iso(|| LunarFestival::from_index(y as isize, i as usize)) {
        let mut nx: Vec<i64> = Vec::new();
        for n in [0i64, 1, -1, 12, 13, -13, 14, 30, -30] {
          if y + n / 13 - 1 < 245 || y + n / 13 + 1 > 9997 {
            continue;
          }
          match catch_iso(|| f.next(n as isize)) {
            Some(Some(z)) => nx.extend_from_slice(&[n, 1, z.get_day().get_year() as i64, z.get_index() as i64]),
            Some(None) => nx.extend_from_slice(&[n, 0, 0, 0]),
            None => nx.extend_from_slice(&[n, -9, 0, 0]),
          }
        }
        sink.put(Ev::new("lf").i("s", 0).i("y", y).i("i", i).a("nx", &nx).done());
      }
    }
    let _ = LunarMonth::from_ym;
  }
}

fn holidays(ctx: &Ctx, sink: &mut Sink) {
  let data = LEGAL_HOLIDAY_DATA;
  let n = data.len() / 13;
  sink.put(Ev::new("ht").i("s", 0).i("len", data.len() as i64).i("n", n as i64).done());
  let mut recs: Vec<(i64, i64, i64, i64, i64, i64)> = Vec::new();
  for k in 0..n {
    let r = &data[k * 13..k * 13 + 13];
    let p = |a: usize, b: usize| r[a..b].parse::<i64>().unwrap_or(-9);
    let sign = if &r[10..11] == "+" { 1 } else if &r[10..11] == "-" { -1 } else { 0 };
    recs.push((p(0, 4), p(4, 6), p(6, 8), p(8, 9), p(9, 10), sign * p(11, 13)));
  }
  for (k, (y, m, d, w, i, off)) in recs.iter().enumerate() {
    let valid = catch(|| SolarDay::new(*y as isize, *m as usize, *d as usize).is_ok()).unwrap_or(false);
    let j = catch(|| jdn(&SolarDay::from_ymd(*y as isize, *m as usize, *d as usize))).unwrap_or(-1);
    let h = catch(|| LegalHoliday::from_ymd(*y as isize, *m as usize, *d as usize)).flatten();
    let h2 = catch(|| SolarDay::from_ymd(*y as isize, *m as usize, *d as usize).get_legal_holiday()).flatten();
    let (found, hw, hj) = h.as_ref().map(|x| (1, if x.is_work() { 1 } else { 0 }, jdn(&x.get_day()))).unwrap_or((0, -1, -1));
    let found2 = h2.is_some() as i64;
    // the day the record's offset points at
    let tj = j + off;
    let tgt = catch(|| {
      let t = JulianDay::from_julian_day(tj as f64 - 0.5).get_solar_day();
      LegalHoliday::from_ymd(t.get_year(), t.get_month(), t.get_day())
    }).flatten();
    let (tfound, twork) = tgt.as_ref().map(|x| (1, if x.is_work() { 1 } else { 0 })).unwrap_or((0, -1));
    let nxt = h.as_ref().and_then(|x| catch(|| x.next(1)).flatten()).map(|x| jdn(&x.get_day())).unwrap_or(-1);
    let prv = h.as_ref().and_then(|x| catch(|| x.next(-1)).flatten()).map(|x| jdn(&x.get_day())).unwrap_or(-1);
    let zero = h.as_ref().and_then(|x| catch(|| x.next(0)).flatten()).map(|x| jdn(&x.get_day())).unwrap_or(-1);
    sink.put(Ev::new("hr").i("s", 0).i("rk", k as i64 + 1).i("n", n as i64).b("valid", valid).i("j", j).i("w", *w).i("i", *i).i("off", *off).i("found", found).i("found2", found2).i("hw", hw).i("hj", hj)
      .i("tfound", tfound).i("twork", twork).i("nxt", nxt).i("prv", prv).i("zero", zero).done());
  }
  // stepping by larger n from sampled records
  let mut rng = ctx.rng(2003);
  let js: Vec<i64> = recs.iter().map(|(y, m, d, _, _, _)| catch(|| jdn(&SolarDay::from_ymd(*y as isize, *m as usize, *d as usize))).unwrap_or(-1)).collect();
  let samples = if ctx.quick() { 150 } else { 3000 };
  for _ in 0..samples {
    let k = rng.range(0, n as i64 - 1);
    let step = *rng.pick(&[2i64, -2, 5, -5, 20, -20, 40, -40, 100, -100, 400, -400]);
    let (y, m, d, _, _, _) = recs[k as usize];
    let r = catch(|| LegalHoliday::from_ymd(y as isize, m as usize, d as usize)).flatten().and_then(|h| catch(|| h.next(step as isize)));
    let got = match r {
      Some(Some(x)) => jdn(&x.get_day()),
      Some(None) => -1,
      None => -9,
    };
    let want = if k + step >= 0 && k + step < n as i64 { js[(k + step) as usize] } else { -1 };
    sink.put(Ev::new("hs").i("s", 0).i("rk", k + 1).i("step", step).i("got", got).i("want", want).done());
  }
  // membership of every civil date 2000..2030 (and a margin): found iff it is a record
  let (a, b) = (2451545i64 - 366, 2462868i64 + 400);
  let set: std::collections::HashSet<i64> = js.iter().cloned().collect();
  for j in a..=b {
    if ctx.quick() && !(set.contains(&j) || set.contains(&(j - 1)) || set.contains(&(j + 1)) || j % 5 == 0) {
      continue;
    }
    if let Some(d) = catch(|| JulianDay::from_julian_day(j as f64 - 0.5).get_solar_day()) {
      let h = catch(|| LegalHoliday::from_ymd(d.get_year(), d.get_month(), d.get_day())).map(|o| o.is_some() as i64).unwrap_or(-9);
      sink.put(Ev::new("hd").i("s", 0).i("j", j).i("found", h).b("rec", set.contains(&j)).done());
    }
  }
}

pub fn run(ctx: &Ctx) -> usize {
  let mut sink = ctx.sink("Trace_C20", "fest");
  sink.segment();
  sink.put(Ev::new("begin").i("s", 1).done());
  civil_dates(ctx, &mut sink);
  civil_index(ctx, &mut sink);
  lunar(ctx, &mut sink);
  holidays(ctx, &mut sink);
  sink.total
}
