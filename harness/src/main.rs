//! tvh — trace harness: drives the real tyme4rs code and writes NDJSON traces for the TLA+ trace specs.
//!   tvh trace <prop> --tier quick|thorough --seed N --out DIR [--cases FILE] [--threads N]
mod lib_util;
mod windows;
mod c01;
mod c02;
mod c07;
mod c08;
mod c09;
mod daywalk;
mod c03;
mod c04;
mod c05;
mod c06;
mod c10;
mod c11;
mod c12;
mod c13;
mod c14;
mod c15;
mod c16;
mod c17;
mod c18;
mod c19;
mod c20;
mod queries;
mod x01;
mod x02;

use std::path::PathBuf;

use lib_util::*;

fn main() {
  let args: Vec<String> = std::env::args().collect();
  if args.len() >= 3 && args[1] == "ask" {
    silence_panics();
    c10::ask(&args[2..]);
    return;
  }
  if args.len() >= 2 && args[1] == "c19warm" {
    silence_panics();
    c19::warm(&args[2..]);
    return;
  }
  if args.len() < 3 || args[1] != "trace" {
    eprintln!("usage: tvh trace <prop> --tier quick|thorough --seed N --out DIR [--cases FILE] [--threads N]");
    std::process::exit(2);
  }
  let prop = args[2].clone();
  let mut ctx = Ctx { tier: Tier::Quick, seed: 0, out: PathBuf::from("out"), threads: 8, cases: None };
  let mut i = 3;
  while i < args.len() {
    match args[i].as_str() {
      "--tier" => {
        ctx.tier = if args[i + 1] == "thorough" { Tier::Thorough } else { Tier::Quick };
        i += 1;
      }
      "--seed" => {
        ctx.seed = args[i + 1].parse().expect("seed");
        i += 1;
      }
      "--out" => {
        ctx.out = PathBuf::from(&args[i + 1]);
        i += 1;
      }
      "--cases" => {
        ctx.cases = Some(PathBuf::from(&args[i + 1]));
        i += 1;
      }
      "--threads" => {
        ctx.threads = args[i + 1].parse().expect("threads");
        i += 1;
      }
      other => {
        eprintln!("unknown argument {}", other);
        std::process::exit(2);
      }
    }
    i += 1;
  }
  silence_panics();
  // stall limit: TVH_STALL seconds without a single event (default 180 quick / 600 thorough)
  let stall = std::env::var("TVH_STALL").ok().and_then(|x| x.parse().ok()).unwrap_or(if ctx.quick() { 180 } else { 600 });
  watchdog(stall);
  let n = match prop.as_str() {
    "C01" => c01::run(&ctx),
    "C02" => c02::run(&ctx),
    "C03" => c03::run(&ctx),
    "C04" => c04::run(&ctx),
    "C05" => c05::run(&ctx),
    "C06" => c06::run(&ctx),
    "C07" => c07::run(&ctx),
    "C08" => c08::run(&ctx),
    "C09" => c09::run(&ctx),
    "C10" => c10::run(&ctx),
    "C11" => c11::run(&ctx),
    "C12" => c12::run(&ctx),
    "C13" => c13::run(&ctx),
    "C14" => c14::run(&ctx),
    "C15" => c15::run(&ctx),
    "C16" => c16::run(&ctx),
    "C17" => c17::run(&ctx),
    "C18" => c18::run(&ctx),
    "C19" => c19::run(&ctx),
    "C20" => c20::run(&ctx),
    "X01" => x01::run(&ctx),
    "X02" => x02::run(&ctx),
    _ => {
      eprintln!("unknown property {}", prop);
      std::process::exit(2);
    }
  };
  println!("EVENTS {}", n);
}
