//! C19 — stem and branch attributes match the classical correspondence rules.  Producer of `Trace_C19`:
//! one `tab` event per attribute table, the complete domain enumerated (indices only; names never leave Rust
//! except where a name IS the attribute: the element in a Nayin name, the colour of a nine star).
use tyme4rs::tyme::culture::fetus::{FetusDay, FetusMonth};
use tyme4rs::tyme::culture::peng_zu::PengZu;
use tyme4rs::tyme::culture::phenology::Phenology;
use tyme4rs::tyme::culture::ren::minor::MinorRen;
use tyme4rs::tyme::culture::star::nine::NineStar;
use tyme4rs::tyme::culture::star::twelve::{Ecliptic, TwelveStar};
use tyme4rs::tyme::culture::star::twenty_eight::TwentyEightStar;
use tyme4rs::tyme::culture::{Direction, Element, Land, Twenty, Zone};
use tyme4rs::tyme::eightchar::EightChar;
use tyme4rs::tyme::enums::{Side, YinYang};
use tyme4rs::tyme::lunar::LunarMonth;
use tyme4rs::tyme::sixtycycle::{EarthBranch, HeavenStem, SixtyCycle};
use tyme4rs::tyme::solar::SolarDay;
use tyme4rs::tyme::Culture;

use crate::lib_util::*;

const BAD: i64 = -999;

/// collected table events of one pass (w = 0: cold process; 1 / 2: after every name of every cycle has been looked
/// up in every named type, types taken in forward / reverse order — a lookup must not change any later answer)
pub struct Out {
  pub w: i64,
  pub lines: Vec<String>,
}

impl Out {
  fn put(&mut self, l: String) {
    self.lines.push(l);
  }
}

fn tab(sink: &mut Out, name: &str, v: Vec<i64>) {
  let w = sink.w;
  sink.put(Ev::new("tab").i("s", 1).i("w", w).s("t", name).a("v", &v).done());
}

fn each<F: Fn(i64) -> i64>(n: i64, f: F) -> Vec<i64> {
  (0..n).map(|i| catch(|| f(i)).unwrap_or(BAD)).collect()
}

fn element_of_char(c: char) -> i64 {
  match c {
    '木' => 0,
    '火' => 1,
    '土' => 2,
    '金' => 3,
    '水' => 4,
    _ => BAD,
  }
}

fn pillar_with(stem: i64, branch: i64) -> SixtyCycle {
  let p = (0..60).find(|p| p % 10 == stem && p % 12 == branch).unwrap();
  SixtyCycle::from_index(p as isize)
}

pub fn run(ctx: &Ctx) -> usize {
  let mut sink = ctx.sink("Trace_C19", "tab");
  sink.segment();
  let mut o = Out { w: 0, lines: Vec::new() };
  tables(&mut o);
  for l in o.lines {
    sink.put(l);
  }
  // the same tables from two fresh processes that first look every name up in every named type
  for w in [1i64, 2] {
    let exe = std::env::current_exe().unwrap();
    let out = std::process::Command::new(exe).arg("c19warm").arg(w.to_string()).output();
    match out {
      Ok(o) => {
        for l in String::from_utf8_lossy(&o.stdout).lines() {
          if l.starts_with('{') {
            sink.put(l.to_string());
          }
        }
      }
      Err(_) => sink.put(Ev::new("tab").i("s", 1).i("w", w).s("t", "process-failed").a("v", &[]).done()),
    }
  }
  sink.total
}

/// `tvh c19warm <1|2>`: warm-up of the name lookups, then all tables on stdout
pub fn warm(args: &[String]) {
  let w: i64 = args.first().and_then(|x| x.parse().ok()).unwrap_or(1);
  crate::c11::warm_names(w == 2);
  let mut o = Out { w, lines: Vec::new() };
  tables(&mut o);
  for l in o.lines {
    println!("{}", l);
  }
}

fn tables(sink: &mut Out) {
  let st = |i: i64| HeavenStem::from_index(i as isize);
  let br = |i: i64| EarthBranch::from_index(i as isize);
  let sc = |i: i64| SixtyCycle::from_index(i as isize);
  let yy = |y: YinYang| if y == YinYang::YANG { 1 } else { 0 };
  // stems
  tab(sink, "stem_element", each(10, |i| st(i).get_element().get_index() as i64));
  tab(sink, "stem_polarity", each(10, |i| yy(st(i).get_yin_yang())));
  tab(sink, "stem_direction", each(10, |i| st(i).get_direction().get_index() as i64));
  tab(sink, "stem_joy", each(10, |i| st(i).get_joy_direction().get_index() as i64));
  tab(sink, "stem_yang_noble", each(10, |i| st(i).get_yang_direction().get_index() as i64));
  tab(sink, "stem_yin_noble", each(10, |i| st(i).get_yin_direction().get_index() as i64));
  tab(sink, "stem_wealth", each(10, |i| st(i).get_wealth_direction().get_index() as i64));
  tab(sink, "stem_mascot", each(10, |i| st(i).get_mascot_direction().get_index() as i64));
  tab(sink, "stem_combine", each(10, |i| st(i).get_combine().get_index() as i64));
  tab(sink, "stem_combine_element", each(100, |k| st(k / 10).combine(st(k % 10)).map(|e| e.get_index() as i64).unwrap_or(-1)));
  tab(sink, "stem_terrain", each(120, |k| st(k / 12).get_terrain(br(k % 12)).get_index() as i64));
  tab(sink, "stem_ten_star", each(100, |k| st(k / 10).get_ten_star(st(k % 10)).get_index() as i64));
  // branches
  tab(sink, "branch_element", each(12, |i| br(i).get_element().get_index() as i64));
  tab(sink, "branch_polarity", each(12, |i| yy(br(i).get_yin_yang())));
  tab(sink, "branch_direction", each(12, |i| br(i).get_direction().get_index() as i64));
  tab(sink, "branch_hidden_main", each(12, |i| br(i).get_hide_heaven_stem_main().get_index() as i64));
  tab(sink, "branch_hidden_middle", each(12, |i| br(i).get_hide_heaven_stem_middle().map(|s| s.get_index() as i64).unwrap_or(-1)));
  tab(sink, "branch_hidden_residual", each(12, |i| br(i).get_hide_heaven_stem_residual().map(|s| s.get_index() as i64).unwrap_or(-1)));
  // the list view: for each branch up to three (stem, type code 2 main / 1 middle / 0 residual) pairs, padded with -1
  {
    let mut v = Vec::new();
    for i in 0..12 {
      let l = catch(|| br(i).get_hide_heaven_stems()).unwrap_or_default();
      for k in 0..3 {
        match l.get(k) {
          Some(h) => {
            v.push(h.get_heaven_stem().get_index() as i64);
            v.push(match h.get_type().get_name().as_str() {
              "本气" => 2,
              "中气" => 1,
              "余气" => 0,
              _ => BAD,
            });
          }
          None => {
            v.push(-1);
            v.push(-1);
          }
        }
      }
    }
    tab(sink, "branch_hidden_list", v);
  }
  tab(sink, "branch_zodiac", each(12, |i| br(i).get_zodiac().get_index() as i64));
  tab(sink, "branch_opposite", each(12, |i| br(i).get_opposite().get_index() as i64));
  tab(sink, "branch_ominous", each(12, |i| br(i).get_ominous().get_index() as i64));
  tab(sink, "branch_combine", each(12, |i| br(i).get_combine().get_index() as i64));
  tab(sink, "branch_combine_element", each(144, |k| br(k / 12).combine(br(k % 12)).map(|e| e.get_index() as i64).unwrap_or(-1)));
  tab(sink, "branch_harm", each(12, |i| br(i).get_harm().get_index() as i64));
  // pillars
  tab(sink, "pillar_stem", each(60, |i| sc(i).get_heaven_stem().get_index() as i64));
  tab(sink, "pillar_branch", each(60, |i| sc(i).get_earth_branch().get_index() as i64));
  tab(sink, "pillar_sound", each(60, |i| sc(i).get_sound().get_index() as i64));
  tab(sink, "pillar_sound_element", each(60, |i| element_of_char(sc(i).get_sound().get_name().chars().last().unwrap())));
  tab(sink, "pillar_xun", each(60, |i| sc(i).get_ten().get_index() as i64));
  tab(sink, "pillar_xun_head", each(60, |i| SixtyCycle::from_name(&sc(i).get_ten().get_name()).get_index() as i64));
  tab(sink, "pillar_void1", each(60, |i| sc(i).get_extra_earth_branches()[0].get_index() as i64));
  tab(sink, "pillar_void2", each(60, |i| sc(i).get_extra_earth_branches()[1].get_index() as i64));
  tab(sink, "pillar_void_count", each(60, |i| sc(i).get_extra_earth_branches().len() as i64));
  tab(sink, "fetus_stem", each(60, |i| FetusDay::new(sc(i)).get_fetus_heaven_stem().get_index() as i64));
  tab(sink, "fetus_branch", each(60, |i| FetusDay::new(sc(i)).get_fetus_earth_branch().get_index() as i64));
  tab(sink, "fetus_side", each(60, |i| if FetusDay::new(sc(i)).get_side() == Side::OUT { 1 } else { 0 }));
  tab(sink, "fetus_direction", each(60, |i| FetusDay::new(sc(i)).get_direction().get_index() as i64));
  // the same spirit through real values, entry i = the value whose OWN pillar is i: a sexagenary day, a lunar day, and
  // the sexagenary day an instant at 23:30 carries (its pillar has already rolled); value = 10 * side + direction
  let wh = |f: &FetusDay| (if f.get_side() == Side::OUT { 10 } else { 0 }) + f.get_direction().get_index() as i64;
  let base = SolarDay::from_ymd(2024, 3, 1);
  let by_pillar = |route: i64| -> Vec<i64> {
    use tyme4rs::tyme::Tyme as _;
    let mut v = vec![BAD; 60];
    for k in 0..60isize {
      let d = base.next(k);
      let r = catch(|| match route {
        0 => { let x = d.get_sixty_cycle_day(); (x.get_sixty_cycle().get_index(), wh(&x.get_fetus_day())) }
        1 => { let x = d.get_lunar_day(); (x.get_sixty_cycle().get_index(), wh(&x.get_fetus_day())) }
        _ => {
          let x = tyme4rs::tyme::solar::SolarTime::from_ymd_hms(d.get_year(), d.get_month(), d.get_day(), 23, 30, 0).get_sixty_cycle_hour().get_sixty_cycle_day();
          (x.get_sixty_cycle().get_index(), wh(&x.get_fetus_day()))
        }
      });
      if let Some((p, w)) = r {
        v[p] = w;
      }
    }
    v
  };
  // the spirit's printed name for every pillar (the name IS the attribute here: place + inside/outside + direction)
  for i in 0..60i64 {
    let nm = catch(|| FetusDay::new(sc(i)).to_string()).unwrap_or_else(|| "<panic>".to_string());
    let w = sink.w;
    sink.put(Ev::new("fdn").i("s", 1).i("w", w).i("p", i).s("n", &nm).done());
  }
  tab(sink, "fetus_where_day", by_pillar(0));
  tab(sink, "fetus_where_lunar", by_pillar(1));
  tab(sink, "fetus_where_late", by_pillar(2));
  tab(sink, "pengzu_stem", each(60, |i| PengZu::from_sixty_cycle(sc(i)).get_peng_zu_heaven_stem().get_index() as i64));
  tab(sink, "pengzu_branch", each(60, |i| PengZu::from_sixty_cycle(sc(i)).get_peng_zu_earth_branch().get_index() as i64));
  // the taboo sentence of a stem / branch starts with that stem / branch
  tab(sink, "pengzu_stem_char", each(10, |i| {
    let n = PengZu::from_sixty_cycle(sc(i)).get_peng_zu_heaven_stem().get_name();
    if n.chars().next() == st(i).get_name().chars().next() { 1 } else { 0 }
  }));
  tab(sink, "pengzu_branch_char", each(12, |i| {
    let n = PengZu::from_sixty_cycle(sc(i)).get_peng_zu_earth_branch().get_name();
    if n.chars().next() == br(i).get_name().chars().next() { 1 } else { 0 }
  }));
  // elements and directions
  let el = |i: i64| Element::from_index(i as isize);
  tab(sink, "element_reinforce", each(5, |i| el(i).get_reinforce().get_index() as i64));
  tab(sink, "element_restrain", each(5, |i| el(i).get_restrain().get_index() as i64));
  tab(sink, "element_reinforced", each(5, |i| el(i).get_reinforced().get_index() as i64));
  tab(sink, "element_restrained", each(5, |i| el(i).get_restrained().get_index() as i64));
  tab(sink, "element_direction", each(5, |i| el(i).get_direction().get_index() as i64));
  tab(sink, "direction_element", each(9, |i| Direction::from_index(i as isize).get_element().get_index() as i64));
  // zodiac signs: every day of a leap year in order
  {
    let mut v = Vec::new();
    for m in 1..=12usize {
      for d in 1..=31usize {
        if let Some(Ok(day)) = catch(|| SolarDay::new(2000, m, d)) {
          v.push(catch(|| day.get_constellation().get_index() as i64).unwrap_or(BAD));
        }
      }
    }
    tab(sink, "zodiac_sign", v);
  }
  // foetus spirit of lunar months (regular month m -> index, leap month -> -1)
  tab(sink, "fetus_month", each(12, |i| LunarMonth::from_ym(2023, i as isize + 1).get_fetus().map(|f| f.get_index() as i64).unwrap_or(-1)));
  tab(sink, "fetus_month_leap", vec![catch(|| LunarMonth::from_ym(2023, -2).get_fetus().map(|f| f.get_index() as i64).unwrap_or(-1)).unwrap_or(BAD)]);
  tab(sink, "fetus_month_cycle", each(12, |i| FetusMonth::from_index(i as isize).get_index() as i64));
  // mansions
  let ms = |i: i64| TwentyEightStar::from_index(i as isize);
  tab(sink, "mansion_luminary", each(28, |i| ms(i).get_seven_star().get_index() as i64));
  tab(sink, "mansion_field_direction", each(28, |i| ms(i).get_land().get_direction().get_index() as i64));
  tab(sink, "mansion_field", each(28, |i| ms(i).get_land().get_index() as i64));
  tab(sink, "mansion_zone", each(28, |i| ms(i).get_zone().get_index() as i64));
  tab(sink, "mansion_beast", each(28, |i| ms(i).get_zone().get_beast().get_index() as i64));
  tab(sink, "mansion_zone_direction", each(28, |i| ms(i).get_zone().get_direction().get_index() as i64));
  tab(sink, "mansion_animal", each(28, |i| ms(i).get_animal().get_index() as i64));
  tab(sink, "mansion_luck", each(28, |i| ms(i).get_luck().get_index() as i64));
  tab(sink, "land_direction", each(9, |i| Land::from_index(i as isize).get_direction().get_index() as i64));
  tab(sink, "zone_direction", each(4, |i| Zone::from_index(i as isize).get_direction().get_index() as i64));
  // nine stars
  let ns = |i: i64| NineStar::from_index(i as isize);
  tab(sink, "ninestar_element", each(9, |i| ns(i).get_element().get_index() as i64));
  tab(sink, "ninestar_direction", each(9, |i| ns(i).get_direction().get_index() as i64));
  tab(sink, "ninestar_dipper", each(9, |i| ns(i).get_dipper().get_index() as i64));
  tab(sink, "ninestar_colour", each(9, |i| match ns(i).get_color().as_str() {
    "白" => 0,
    "黑" => 1,
    "碧" => 2,
    "绿" => 3,
    "黄" => 4,
    "赤" => 5,
    "紫" => 6,
    _ => BAD,
  }));
  // twelve spirits, minor Liu Ren, twenty-year periods, pentads
  tab(sink, "twelve_ecliptic", each(12, |i| TwelveStar::from_index(i as isize).get_ecliptic().get_index() as i64));
  tab(sink, "ecliptic_luck", each(2, |i| Ecliptic::from_index(i as isize).get_luck().get_index() as i64));
  tab(sink, "minor_ren_luck", each(6, |i| MinorRen::from_index(i as isize).get_luck().get_index() as i64));
  tab(sink, "minor_ren_element", each(6, |i| MinorRen::from_index(i as isize).get_element().get_index() as i64));
  tab(sink, "twenty_sixty", each(9, |i| Twenty::from_index(i as isize).get_sixty().get_index() as i64));
  tab(sink, "phenology_three", each(72, |i| Phenology::from_index(i as isize).get_three_phenology().get_index() as i64));
  // eight-character derived signs
  let ec = |y: SixtyCycle, m: SixtyCycle, d: SixtyCycle, h: SixtyCycle| EightChar::from_sixty_cycle(y, m, d, h);
  tab(sink, "fetal_origin", each(60, |i| ec(sc(0), sc(i), sc(0), sc(0)).get_fetal_origin().get_index() as i64));
  tab(sink, "fetal_breath", each(60, |i| ec(sc(0), sc(2), sc(i), sc(0)).get_fetal_breath().get_index() as i64));
  // own / body sign over year stem x month branch x hour branch
  let sign = |which: i64, k: i64| -> i64 {
    let (ys, mb, hb) = (k / 144, (k / 12) % 12, k % 12);
    let y = sc(ys);
    let m = pillar_with(mb % 2, mb);
    let h = pillar_with(hb % 2, hb);
    let e = ec(y, m, sc(0), h);
    if which == 0 { e.get_own_sign().get_index() as i64 } else { e.get_body_sign().get_index() as i64 }
  };
  tab(sink, "own_sign", each(1440, |k| sign(0, k)));
  tab(sink, "body_sign", each(1440, |k| sign(1, k)));
}
