//! C11 — stepping by n is a consistent group action on every time unit and cycle.  Producer of `Trace_C11`.
//!   cyc : one element of one cyclic type: next(n) for a fixed list of n, from_index(i + k*size), name round
//!         trip, unknown name, composition pairs
//!   lin : one (value, a, b) of one linear unit: projections of x, x.next(0), x.next(a), x.next(a).next(b),
//!         x.next(a+b), x.next(a).next(-a)
use tyme4rs::tyme::culture::dog::Dog;
use tyme4rs::tyme::culture::fetus::{FetusEarthBranch, FetusHeavenStem, FetusMonth};
use tyme4rs::tyme::culture::nine::Nine;
use tyme4rs::tyme::culture::peng_zu::{PengZuEarthBranch, PengZuHeavenStem};
use tyme4rs::tyme::culture::phenology::{Phenology, ThreePhenology};
use tyme4rs::tyme::culture::plumrain::PlumRain;
use tyme4rs::tyme::culture::ren::minor::MinorRen;
use tyme4rs::tyme::culture::star::nine::{Dipper, NineStar};
use tyme4rs::tyme::culture::star::seven::SevenStar;
use tyme4rs::tyme::culture::star::six::SixStar;
use tyme4rs::tyme::culture::star::ten::TenStar;
use tyme4rs::tyme::culture::star::twelve::{Ecliptic, TwelveStar};
use tyme4rs::tyme::culture::star::twenty_eight::TwentyEightStar;
use tyme4rs::tyme::culture::*;
use tyme4rs::tyme::eightchar::{ChildLimit, DecadeFortune, Fortune};
use tyme4rs::tyme::enums::Gender;
use tyme4rs::tyme::jd::JulianDay;
use tyme4rs::tyme::lunar::{LunarDay, LunarHour, LunarMonth, LunarSeason, LunarWeek, LunarYear};
use tyme4rs::tyme::sixtycycle::{EarthBranch, HeavenStem, SixtyCycle, SixtyCycleDay, SixtyCycleHour, SixtyCycleMonth, SixtyCycleYear};
use tyme4rs::tyme::solar::{SolarDay, SolarHalfYear, SolarMonth, SolarSeason, SolarTerm, SolarTime, SolarWeek, SolarYear};
use tyme4rs::tyme::{Culture, Tyme};

use crate::c06::inst;
use crate::daywalk::jdn;
use crate::lib_util::*;

const BAD: i64 = -999;
const BIG: i64 = 2_000_000_011;

fn steps(size: i64) -> Vec<i64> {
  vec![0, 1, -1, size, -size, size + 1, -(size + 1), 2 * size + 3, -(2 * size + 3), 1_000_003, -1_000_003, BIG, -BIG]
}

const PAIRS: [(i64, i64); 5] = [(1, -1), (3, 4), (-3, 5), (1_000_003, -999_999), (-7, -8)];

macro_rules! cyclic {
  ($sink:expr, $tid:expr, $ty:ty, $named:expr) => {{
    let size = <$ty>::from_index(0).get_size() as i64;
    for i in 0..size {
      let x = <$ty>::from_index(i as isize);
      let nx: Vec<i64> = steps(size).iter().map(|n| catch(|| x.next(*n as isize).get_index() as i64).unwrap_or(BAD)).collect();
      let fx: Vec<i64> = [-2i64, -1, 1, 2, 1000].iter().map(|k| catch(|| <$ty>::from_index((i + k * size) as isize).get_index() as i64).unwrap_or(BAD)).collect();
      let name = x.get_name();
      let first_same = (0..size).find(|j| <$ty>::from_index(*j as isize).get_name() == name).unwrap_or(-1);
      let cmp: Vec<i64> = PAIRS.iter().flat_map(|(a, b)| {
        let l = catch(|| x.next(*a as isize).next(*b as isize).get_index() as i64).unwrap_or(BAD);
        let r = catch(|| x.next((*a + *b) as isize).get_index() as i64).unwrap_or(BAD);
        vec![l, r]
      }).collect();
      let (nm, unk): (i64, i64) = $named(&name);
      $sink.put(Ev::new("cyc").i("s", 0).i("t", $tid).i("size", size).i("i", i).i("gi", x.get_index() as i64).a("nx", &nx).a("fx", &fx).i("nm", nm).i("fi", first_same).i("unk", unk).a("cmp", &cmp).done());
    }
  }};
}

macro_rules! named {
  ($ty:ty) => {
    |name: &str| -> (i64, i64) {
      let nm = catch(|| <$ty>::from_name(name).get_index() as i64).unwrap_or(BAD);
      let unk = if catch(|| <$ty>::from_name("无此名称")).is_none() { 1 } else { 0 };
      (nm, unk)
    }
  };
}

fn unnamed(_name: &str) -> (i64, i64) {
  (-1, -1)
}

/// every named cyclic type, handed one by one to the macro `$m`
macro_rules! for_each_named {
  ($m:ident, $acc:expr) => {{
    $m!($acc, HeavenStem); $m!($acc, EarthBranch); $m!($acc, SixtyCycle); $m!($acc, Animal); $m!($acc, Beast); $m!($acc, Constellation);
    $m!($acc, Direction); $m!($acc, Duty); $m!($acc, Element); $m!($acc, God); $m!($acc, Land); $m!($acc, Luck); $m!($acc, Phase);
    $m!($acc, Sixty); $m!($acc, Sound); $m!($acc, Taboo); $m!($acc, Ten); $m!($acc, Terrain); $m!($acc, Twenty); $m!($acc, Week);
    $m!($acc, Zodiac); $m!($acc, Zone); $m!($acc, Dog); $m!($acc, Nine); $m!($acc, PlumRain); $m!($acc, Phenology); $m!($acc, ThreePhenology);
    $m!($acc, PengZuHeavenStem); $m!($acc, PengZuEarthBranch); $m!($acc, MinorRen); $m!($acc, Dipper); $m!($acc, NineStar); $m!($acc, TenStar);
    $m!($acc, TwentyEightStar); $m!($acc, SixStar); $m!($acc, Ecliptic); $m!($acc, TwelveStar); $m!($acc, SevenStar); $m!($acc, LunarSeason);
  }};
}

macro_rules! collect_names {
  ($acc:expr, $ty:ty) => {{
    let size = <$ty>::from_index(0).get_size() as isize;
    for i in 0..size {
      $acc.push(<$ty>::from_index(i).get_name());
    }
  }};
}

macro_rules! lookup_all {
  ($acc:expr, $ty:ty) => {{
    let pool: &Vec<String> = $acc.0;
    let f: Box<dyn Fn()> = Box::new(move || {
      for n in pool.iter() {
        let _ = catch(|| <$ty>::from_name(n).get_index());
      }
    });
    $acc.1.push(f);
  }};
}

/// look every name of every cycle up in every named type (unknown names are refused: caught); `reverse` takes the
/// types and the names in the opposite order.  Used by C19 to show that lookups leave no trace in later answers.
pub fn warm_names(reverse: bool) {
  let mut names: Vec<String> = Vec::new();
  for_each_named!(collect_names, names);
  if reverse {
    names.reverse();
  }
  let mut acc: (&Vec<String>, Vec<Box<dyn Fn() + '_>>) = (&names, Vec::new());
  for_each_named!(lookup_all, acc);
  let mut fs = acc.1;
  if reverse {
    fs.reverse();
  }
  for f in fs {
    f();
  }
}

fn cyclic_all(sink: &mut Sink) {
  cyclic!(sink, 1, HeavenStem, named!(HeavenStem));
  cyclic!(sink, 2, EarthBranch, named!(EarthBranch));
  cyclic!(sink, 3, SixtyCycle, named!(SixtyCycle));
  cyclic!(sink, 4, Animal, named!(Animal));
  cyclic!(sink, 5, Beast, named!(Beast));
  cyclic!(sink, 6, Constellation, named!(Constellation));
  cyclic!(sink, 7, Direction, named!(Direction));
  cyclic!(sink, 8, Duty, named!(Duty));
  cyclic!(sink, 9, Element, named!(Element));
  cyclic!(sink, 10, God, named!(God));
  cyclic!(sink, 11, Land, named!(Land));
  cyclic!(sink, 12, Luck, named!(Luck));
  cyclic!(sink, 13, Phase, named!(Phase));
  cyclic!(sink, 14, Sixty, named!(Sixty));
  cyclic!(sink, 15, Sound, named!(Sound));
  cyclic!(sink, 16, Taboo, named!(Taboo));
  cyclic!(sink, 17, Ten, named!(Ten));
  cyclic!(sink, 18, Terrain, named!(Terrain));
  cyclic!(sink, 19, Twenty, named!(Twenty));
  cyclic!(sink, 20, Week, named!(Week));
  cyclic!(sink, 21, Zodiac, named!(Zodiac));
  cyclic!(sink, 22, Zone, named!(Zone));
  cyclic!(sink, 23, Dog, named!(Dog));
  cyclic!(sink, 24, Nine, named!(Nine));
  cyclic!(sink, 25, PlumRain, named!(PlumRain));
  cyclic!(sink, 26, Phenology, named!(Phenology));
  cyclic!(sink, 27, ThreePhenology, named!(ThreePhenology));
  cyclic!(sink, 28, FetusHeavenStem, unnamed);
  cyclic!(sink, 29, FetusEarthBranch, unnamed);
  cyclic!(sink, 30, FetusMonth, unnamed);
  cyclic!(sink, 31, PengZuHeavenStem, named!(PengZuHeavenStem));
  cyclic!(sink, 32, PengZuEarthBranch, named!(PengZuEarthBranch));
  cyclic!(sink, 33, MinorRen, named!(MinorRen));
  cyclic!(sink, 34, Dipper, named!(Dipper));
  cyclic!(sink, 35, NineStar, named!(NineStar));
  cyclic!(sink, 36, TenStar, named!(TenStar));
  cyclic!(sink, 37, TwentyEightStar, named!(TwentyEightStar));
  cyclic!(sink, 38, SixStar, named!(SixStar));
  cyclic!(sink, 39, Ecliptic, named!(Ecliptic));
  cyclic!(sink, 40, TwelveStar, named!(TwelveStar));
  cyclic!(sink, 41, SevenStar, named!(SevenStar));
  cyclic!(sink, 42, LunarSeason, named!(LunarSeason));
}

/// one linear sample: projections through `proj`
fn lin<T, N, P>(sink: &mut Sink, tid: i64, x: Option<T>, a: i64, b: i64, next: N, proj: P)
where
  T: Clone,
  N: Fn(&T, i64) -> T,
  P: Fn(&T) -> Vec<i64>,
{
  linc(sink, tid, x, a, b, next, proj, |v: &T| v.clone())
}

/// as `lin`, with `canon`: the value built afresh by the type's constructor at the position of its argument; a stepped
/// value must be indistinguishable from it (fields `fca`, `fcs`: projections of canon(x.next(a)), canon(x.next(a+b)))
fn linc<T, N, P, C>(sink: &mut Sink, tid: i64, x: Option<T>, a: i64, b: i64, next: N, proj: P, canon: C)
where
  N: Fn(&T, i64) -> T,
  P: Fn(&T) -> Vec<i64>,
  C: Fn(&T) -> T,
{
  let x = match x {
    Some(x) => x,
    None => return,
  };
  let bad = || vec![BAD];
  let f0 = catch_iso(|| proj(&x)).unwrap_or_else(bad);
  let fz = catch_iso(|| proj(&next(&x, 0))).unwrap_or_else(bad);
  let xa = catch_iso(|| next(&x, a));
  let fa = xa.as_ref().and_then(|v| catch_iso(|| proj(v))).unwrap_or_else(bad);
  let fab = xa.as_ref().and_then(|v| catch_iso(|| proj(&next(v, b)))).unwrap_or_else(bad);
  let fr = xa.as_ref().and_then(|v| catch_iso(|| proj(&next(v, -a)))).unwrap_or_else(bad);
  let xs = catch_iso(|| next(&x, a + b));
  let fs = xs.as_ref().and_then(|v| catch_iso(|| proj(v))).unwrap_or_else(bad);
  let fca = xa.as_ref().and_then(|v| catch_iso(|| proj(&canon(v)))).unwrap_or_else(bad);
  let fcs = xs.as_ref().and_then(|v| catch_iso(|| proj(&canon(v)))).unwrap_or_else(bad);
  sink.put(Ev::new("lin").i("s", 0).i("t", tid).i("a", a).i("b", b).a("f0", &f0).a("fz", &fz).a("fa", &fa).a("fab", &fab).a("fs", &fs).a("fr", &fr).a("fca", &fca).a("fcs", &fcs).done());
}

/// a pair (a, b) of LARGE steps: both x.next(a) and x.next(a).next(b) are uniform over the whole range lo..hi (ordinals)
fn far_pair(rng: &mut Rng, ord: i64, lo: i64, hi: i64) -> (i64, i64) {
  let t1 = rng.range(lo, hi);
  let t2 = rng.range(lo, hi);
  (t1 - ord, t2 - t1)
}

fn pick_n(rng: &mut Rng, span: i64) -> i64 {
  match rng.range(0, 5) {
    0 => 0,
    1 => *rng.pick(&[1i64, -1]),
    2 => rng.range(-13, 13),
    3 => rng.range(-span, span),
    4 => rng.range(-span / 10, span / 10),
    _ => *rng.pick(&[12i64, -12, 24, -24, 60, -60, 7, -7, 365, -366]),
  }
}

fn linear_all(ctx: &Ctx, sink: &mut Sink) {
  let mut rng = ctx.rng(1101);
  let n = if ctx.quick() { 3000 } else { 15000 };
  let day_of = |j: i64| catch(|| JulianDay::from_julian_day(j as f64 - 0.5).get_solar_day());
  let time_of = |j: i64, s: i64| day_of(j).and_then(|d| catch(|| SolarTime::from_ymd_hms(d.get_year(), d.get_month(), d.get_day(), (s / 3600) as usize, ((s / 60) % 60) as usize, (s % 60) as usize)));
  const JLO: i64 = 1721424 + 800; // civil days well inside 0001..9999
  const JHI: i64 = 5373484 - 800;
  const LLO: i64 = 1815400; // lunar / sexagenary days after AD 244: the reform seams of AD 9-25 and 236-240 are C02/C03 findings
  const LHI: i64 = 5373484 - 4000;
  for k in 0..n {
    // values near the edges of the supported range on a fifth of the samples
    let edge = k % 5 == 0;
    // every fourth sample takes LARGE steps: x.next(a) and x.next(a).next(b) land anywhere in the unit's whole range
    let far = k % 4 == 3;
    let y = if edge { *rng.pick(&[1i64, 2, 3, 9997, 9998, 9999]) } else { rng.range(1, 9999) };
    let a0 = pick_n(&mut rng, 300);
    let b0 = pick_n(&mut rng, 300);
    // (a, b) for a unit whose ordinal is `ord` and whose legal ordinals are lo..hi; None when a small pair leaves the range
    let mut ab = |rng: &mut Rng, ord: i64, lo: i64, hi: i64, a: i64, b: i64| -> Option<(i64, i64)> {
      if far {
        Some(far_pair(rng, ord, lo, hi))
      } else if [ord, ord + a, ord + a + b].iter().all(|o| *o >= lo && *o <= hi) {
        Some((a, b))
      } else {
        None
      }
    };
    if let Some((a, b)) = ab(&mut rng, y, 1, 9999, a0, b0) {
      lin(sink, 101, catch(|| SolarYear::from_year(y as isize)), a, b, |x, n| x.next(n as isize), |x| vec![x.get_year() as i64]);
    }
    if let Some((a, b)) = ab(&mut rng, y, -1, 9999, a0, b0) {
      lin(sink, 102, catch(|| LunarYear::from_year(y as isize)), a, b, |x, n| x.next(n as isize), |x| vec![x.get_year() as i64]);
      lin(sink, 103, catch(|| SixtyCycleYear::from_year(y as isize)), a, b, |x, n| x.next(n as isize), |x| vec![x.get_year() as i64]);
    }
    let i2 = rng.range(0, 1);
    if let Some((a, b)) = ab(&mut rng, 2 * y + i2, 2, 2 * 9999 + 1, a0, b0) {
      lin(sink, 104, catch(|| SolarHalfYear::from_index(y as isize, i2 as usize)), a, b, |x, n| x.next(n as isize), |x| vec![x.get_year() as i64, x.get_index() as i64]);
    }
    let i4 = rng.range(0, 3);
    if let Some((a, b)) = ab(&mut rng, 4 * y + i4, 4, 4 * 9999 + 3, a0, b0) {
      lin(sink, 105, catch(|| SolarSeason::from_index(y as isize, i4 as usize)), a, b, |x, n| x.next(n as isize), |x| vec![x.get_year() as i64, x.get_index() as i64]);
    }
    let m = rng.range(1, 12);
    if let Some((a, b)) = ab(&mut rng, 12 * y + m - 1, 12, 12 * 9999 + 11, a0, b0) {
      lin(sink, 106, catch(|| SolarMonth::from_ym(y as isize, m as usize)), a, b, |x, n| x.next(n as isize), |x| vec![x.get_year() as i64, x.get_month() as i64]);
    }
    let ti = rng.range(0, 23);
    if let Some((a, b)) = ab(&mut rng, 24 * y + ti, 24 + 1, 24 * 9999 + 23, a0, b0) {
      // the projection carries the term's own day, so that a value whose label and instant disagree is seen; every other
      // sample constructs the term with a RAW index outside 0..23 (the constructor carries it into the year)
      let raw = if k % 2 == 1 { ti + 24 * rng.range(-2, 2) } else { ti };
      let ry = y - (raw - ti) / 24;
      if ry >= 2 && ry <= 9998 {
        linc(sink, 107, catch(|| SolarTerm::from_index(ry as isize, raw as isize)), a, b, |x, n| x.next(n as isize),
          |x| vec![x.get_year() as i64, x.get_index() as i64, (x.get_cursory_julian_day() + 2451545.5).floor() as i64],
          |x| SolarTerm::from_index(x.get_year(), x.get_index() as isize));
      }
    }
    // sexagenary months: years -1..9999
    let sy = if edge { *rng.pick(&[-1i64, 0, 1, 9999]) } else { rng.range(-1, 9999) };
    let sk = rng.range(0, 11);
    if let Some((a, b)) = ab(&mut rng, 12 * sy + sk, -12, 12 * 9999 + 11, a0, b0) {
      linc(sink, 108, catch(|| SixtyCycleMonth::from_index(sy as isize, sk as isize)), a, b, |x, n| x.next(n as isize),
        |x| vec![x.get_sixty_cycle_year().get_year() as i64, x.get_index_in_year() as i64, x.get_sixty_cycle().get_index() as i64],
        |x| SixtyCycleMonth::from_index(x.get_sixty_cycle_year().get_year(), x.get_index_in_year() as isize));
    }
    // day-scaled units
    let j = if edge { *rng.pick(&[JLO, JHI, 2299160, 2299161]) } else { rng.range(JLO, JHI) };
    let (da0, db0) = (pick_n(&mut rng, 380), pick_n(&mut rng, 380));
    if let Some((da, db)) = ab(&mut rng, j, JLO - 790, JHI + 790, da0, db0) {
      lin(sink, 110, day_of(j), da, db, |x, n| x.next(n as isize), |x| vec![jdn(x)]);
      lin(sink, 111, catch(|| JulianDay::from_julian_day(j as f64 - 0.5)), da, db, |x, n| x.next(n as isize), |x| vec![jdn_of(x.get_day()).0]);
    }
    // lunar / sexagenary days and weeks away from the reform seams and the range edges; the projection carries the
    // value's own fields (lunar date, pillars), compared with the value built afresh at the same position
    let jl = rng.range(LLO + 800, LHI - 800);
    if let Some((da, db)) = ab(&mut rng, jl, LLO, LHI, da0, db0) {
      linc(sink, 112, day_of(jl).and_then(|d| catch_iso(|| d.get_lunar_day())), da, db, |x, n| x.next(n as isize),
        |x| vec![jdn(&x.get_solar_day()), x.get_year() as i64, x.get_month() as i64, x.get_day() as i64, x.get_sixty_cycle().get_index() as i64,
                 x.get_sixty_cycle_day().get_sixty_cycle().get_index() as i64, x.get_week().get_index() as i64],
        |x| LunarDay::from_ymd(x.get_year(), x.get_month(), x.get_day()));
      linc(sink, 113, day_of(jl).and_then(|d| catch_iso(|| d.get_sixty_cycle_day())), da, db, |x, n| x.next(n as isize),
        |x| vec![jdn(&x.get_solar_day()), x.get_year().get_index() as i64, x.get_month().get_index() as i64, x.get_sixty_cycle().get_index() as i64],
        |x| SixtyCycleDay::from_solar_day(x.get_solar_day()));
    }
    let st = rng.range(0, 6);
    let (wa0, wb0) = (pick_n(&mut rng, 60), pick_n(&mut rng, 60));
    // weeks: ordinals in days, steps in weeks
    // (week stepping walks month by month: far steps are capped at `cap` weeks to keep the run short)
    let wk = |rng: &mut Rng, j0: i64, lo: i64, hi: i64, a: i64, b: i64, cap: i64| -> Option<(i64, i64)> {
      if far {
        let t1 = (j0 + 7 * rng.range(-cap, cap)).max(lo).min(hi);
        let t2 = (t1 + 7 * rng.range(-cap, cap)).max(lo).min(hi);
        Some(((t1 - j0) / 7, (t2 - t1) / 7))
      } else if [j0, j0 + 7 * a, j0 + 7 * (a + b)].iter().all(|o| *o >= lo && *o <= hi) {
        Some((a, b))
      } else {
        None
      }
    };
    // civil weeks: every other far sample starts in 1400..2300 (the calendar reform and the dropped leap days of century years)
    let jw = if far && k % 8 == 3 { rng.range(2232400, 2561100) } else { jl };
    let wcap = if ctx.quick() { 30000 } else { 120000 };
    if let Some((wa, wb)) = wk(&mut rng, jw, LLO, LHI, wa0, wb0, wcap) {
      linc(sink, 114, day_of(jw).and_then(|d| catch(|| d.get_solar_week(st as usize))), wa, wb, |x, n| x.next(n as isize),
        // a week is identified by its first day and start weekday (one week has two (month, index) names at a month border)
        |x| vec![jdn(&x.get_first_day()), x.get_start().get_index() as i64],
        |x| SolarWeek::from_ym(x.get_year(), x.get_month(), x.get_index(), x.get_start().get_index()));
    }
    let lcap = if ctx.quick() { 1500 } else { 6000 };
    if let Some((wa, wb)) = wk(&mut rng, jl, LLO, LHI, wa0, wb0, lcap).filter(|_| !far || k % 16 == 3) {
      linc(sink, 115, day_of(jl).and_then(|d| catch_iso(|| {
        let l = d.get_lunar_day();
        let mo = l.get_lunar_month();
        // the lunar week that contains the day
        let ws = mo.get_weeks(st as usize);
        ws.into_iter().find(|w| w.get_days().iter().any(|x| *x == l)).unwrap()
      })), wa, wb, |x: &LunarWeek, n| x.next(n as isize),
        |x| vec![jdn(&x.get_first_day().get_solar_day()), x.get_start().get_index() as i64],
        |x| LunarWeek::from_ym(x.get_year(), x.get_month(), x.get_index(), x.get_start().get_index()));
    }
    // lunar months: ordinal through the month walk is covered by C03; here the group laws and, on far samples,
    // steps of up to +-3000 months (the walk of C03 never takes more than a few hundred at once)
    // (two far steps of up to 3000 months move at most 486 years: the start stays that far inside the range)
    let ly = if far { rng.range(1000, 9400) } else { rng.range(500, 9700) };
    let lm = rng.range(1, 12);
    let (ma, mb) = if far { (rng.range(-3000, 3000), rng.range(-3000, 3000)) } else { (pick_n(&mut rng, 40), pick_n(&mut rng, 40)) };
    linc(sink, 116, catch_iso(|| LunarMonth::from_ym(ly as isize, lm as isize)), ma, mb, |x, n| x.next(n as isize),
      |x| vec![x.get_year() as i64, x.get_month_with_leap() as i64, jdn_of(x.get_first_julian_day().get_day()).0],
      |x| LunarMonth::from_ym(x.get_year(), x.get_month_with_leap()));
    // instants: seconds (|a|, |b| <= 10^9 so that sums stay inside 32 bits on the TLC side)
    let s = rng.range(0, 86399);
    let secs = |rng: &mut Rng, j0: i64, lo: i64, hi: i64| -> (i64, i64) {
      if far {
        let cap = |v: i64| v.max(-11000).min(11000); // days
        let (x, y) = far_pair(rng, j0, lo, hi);
        (cap(x) * 86400 + rng.range(-86399, 86399), cap(y) * 86400 + rng.range(-86399, 86399))
      } else {
        (pick_n(rng, 400000), pick_n(rng, 400000))
      }
    };
    let (ta, tb) = secs(&mut rng, j, JLO + 2, JHI - 2);
    lin(sink, 120, time_of(j, s), ta, tb, |x, n| x.next(n as isize), |x| { let (a, b) = inst(x); vec![a, b] });
    // ... and instants on whole hours stepped by whole hours / days: steps that land exactly on a midnight
    if k % 3 == 0 {
      let hs = 3600 * rng.range(0, 23);
      let (ga, gb) = (3600 * rng.range(-72, 72), 3600 * rng.range(-72, 72));
      lin(sink, 120, time_of(j, hs), ga, gb, |x, n| x.next(n as isize), |x| { let (a, b) = inst(x); vec![a, b] });
      let sch2 = |x: &SixtyCycleHour| { let (a, b) = inst(&x.get_solar_time()); vec![a, b, x.get_year().get_index() as i64, x.get_month().get_index() as i64, x.get_day().get_index() as i64, x.get_sixty_cycle().get_index() as i64] };
      linc(sink, 121, time_of(jl, hs).and_then(|t| catch_iso(|| t.get_sixty_cycle_hour())), ga, gb, |x: &SixtyCycleHour, n| x.next(n as isize), sch2,
        |x| SixtyCycleHour::from_solar_time(x.get_solar_time()));
    }
    let (ta, tb) = secs(&mut rng, jl, LLO + 2, LHI - 2);
    let sch = |x: &SixtyCycleHour| { let (a, b) = inst(&x.get_solar_time()); vec![a, b, x.get_year().get_index() as i64, x.get_month().get_index() as i64, x.get_day().get_index() as i64, x.get_sixty_cycle().get_index() as i64] };
    linc(sink, 121, time_of(jl, s).and_then(|t| catch_iso(|| t.get_sixty_cycle_hour())), ta, tb, |x: &SixtyCycleHour, n| x.next(n as isize), sch,
      |x| SixtyCycleHour::from_solar_time(x.get_solar_time()));
    // ... and a step across a Jie instant that does not leave the civil day (month / year pillar turn inside a day)
    if k % 6 == 1 {
      let ty = rng.range(300, 9990);
      let jie = catch(|| SolarTerm::from_index(ty as isize, 2 * rng.range(0, 11) as isize + 1)).and_then(|t| crate::c06::term_time(&t));
      if let Some(jt) = jie {
        let sod = inst(&jt).1;
        if sod > 600 && sod < 86400 - 600 {
          let u = rng.range(1, sod - 1);
          let v = rng.range(1, 86399 - sod);
          let x0 = catch(|| jt.next(-(u as isize))).and_then(|t| catch_iso(|| t.get_sixty_cycle_hour()));
          let (a, b) = if k % 12 == 1 { (u + v, -(rng.range(0, u + v))) } else { (u + v, -(u + v) - rng.range(0, sod - u)) };
          linc(sink, 121, x0, a, b, |x: &SixtyCycleHour, n| x.next(n as isize), sch, |x| SixtyCycleHour::from_solar_time(x.get_solar_time()));
        }
      }
    }
    // lunar hours: double-hours
    let (ha, hb) = if far { (rng.range(-100000, 100000), rng.range(-100000, 100000)) } else { (pick_n(&mut rng, 100), pick_n(&mut rng, 100)) };
    let jh = rng.range(LLO + 20000, LHI - 20000);
    linc(sink, 122, time_of(jh, s).and_then(|t| catch_iso(|| t.get_lunar_hour())), ha, hb, |x: &LunarHour, n| x.next(n as isize),
      |x| { let (a, b) = inst(&x.get_solar_time()); let e = x.get_eight_char(); vec![a, b, x.get_year() as i64, x.get_month() as i64, x.get_day() as i64, x.get_hour() as i64, e.get_month().get_index() as i64, e.get_day().get_index() as i64, e.get_hour().get_index() as i64] },
      |x| LunarHour::from_ymd_hms(x.get_year(), x.get_month(), x.get_day(), x.get_hour(), x.get_minute(), x.get_second()));
    // fortunes
    if k % 10 == 0 {
      let cl = time_of(jl, s).and_then(|t| catch_iso(|| ChildLimit::from_solar_time(t, if k % 20 == 0 { Gender::MAN } else { Gender::WOMAN })));
      if let Some(cl) = cl {
        let (fa, fb) = (rng.range(-5, 12), rng.range(-5, 12));
        lin(sink, 130, Some(cl.get_start_decade_fortune()), fa, fb, |x: &DecadeFortune, n| x.next(n as isize), |x| vec![x.get_index() as i64, x.get_sixty_cycle().get_index() as i64, x.get_start_age() as i64]);
        lin(sink, 131, Some(cl.get_start_fortune()), fa, fb, |x: &Fortune, n| x.next(n as isize), |x| vec![x.get_index() as i64, x.get_sixty_cycle().get_index() as i64, x.get_age() as i64]);
      }
    }
  }
}

pub fn run(ctx: &Ctx) -> usize {
  let mut sink = ctx.sink("Trace_C11", "step");
  sink.segment();
  sink.put(Ev::new("begin").i("s", 1).done());
  cyclic_all(&mut sink);
  linear_all(ctx, &mut sink);
  sink.total
}
