//! C01 — civil calendar <-> day count.  Producer of `Trace_C01` events.
//!   d   : one civil day of a walk (date, day number, round trip, next/prev, day-of-year, lengths)
//!   acc : acceptance of every candidate day 0..32 of one (year, month) candidate
//!   st  : stepping a date by n days
//!   pr  : a pair of dates: difference, before/after, equality
use tyme4rs::tyme::jd::JulianDay;
use tyme4rs::tyme::solar::{SolarDay, SolarMonth, SolarYear};
use tyme4rs::tyme::Tyme;

use crate::lib_util::*;
use crate::windows::*;

pub fn ymd(d: &SolarDay) -> (i64, i64, i64) {
  (d.get_year() as i64, d.get_month() as i64, d.get_day() as i64)
}

pub fn start_day(s: &Start) -> Option<SolarDay> {
  match s {
    Start::Ymd(y, m, d) => catch(|| SolarDay::from_ymd(*y as isize, *m as usize, *d as usize)),
    Start::Jdn(j) => catch(|| JulianDay::from_julian_day(*j as f64 - 0.5).get_solar_day()),
  }
}

fn day_line(d: &SolarDay, first: bool) -> String {
  let (y, m, dd) = ymd(d);
  let jd = catch(|| d.get_julian_day().get_day());
  let (j, jf) = jd.map(jdn_of).unwrap_or((-1, false));
  let back = catch(|| ymd(&d.get_julian_day().get_solar_day())).unwrap_or((-1, -1, -1));
  let nx = catch(|| ymd(&d.next(1))).unwrap_or((-1, -1, -1));
  let pv = catch(|| ymd(&d.next(-1))).unwrap_or((-1, -1, -1));
  let z = catch(|| ymd(&d.next(0))).unwrap_or((-1, -1, -1));
  let doy = catch(|| d.get_index_in_year() as i64).unwrap_or(-1);
  let dim = catch(|| d.get_solar_month().get_day_count() as i64).unwrap_or(-1);
  let ylen = catch(|| d.get_solar_month().get_solar_year().get_day_count() as i64).unwrap_or(-1);
  let leap = catch(|| d.get_solar_month().get_solar_year().is_leap()).map(|b| b as i64).unwrap_or(-1);
  let fresh = catch(|| SolarDay::from_ymd(y as isize, m as usize, dd as usize).get_julian_day().get_day()).map(jdn_of).map(|x| x.0).unwrap_or(-1);
  Ev::new("d").b("s", first).i("y", y).i("m", m).i("d", dd).i("j", j).b("jf", jf).i("fj", fresh)
    .i("by", back.0).i("bm", back.1).i("bd", back.2)
    .i("ny", nx.0).i("nm", nx.1).i("nd", nx.2)
    .i("py", pv.0).i("pm", pv.1).i("pd", pv.2)
    .i("zy", z.0).i("zm", z.1).i("zd", z.2)
    .i("doy", doy).i("dim", dim).i("ylen", ylen).i("leap", leap).done()
}

/// advance a walk by one day: through next(1); if that fails, through the day number; None ends the window
pub fn advance(d: &SolarDay) -> Option<SolarDay> {
  if let Some(n) = catch(|| d.next(1)) {
    return Some(n);
  }
  let j = catch(|| d.get_julian_day().get_day())?;
  catch(|| JulianDay::from_julian_day(j + 1.0).get_solar_day())
}

fn walk(ctx: &Ctx, tag: &str, wins: Vec<Window>) -> usize {
  let mut sink = ctx.sink("Trace_C01", tag);
  for w in wins {
    sink.segment();
    let mut cur = match start_day(&w.start) {
      Some(d) => d,
      None => {
        sink.put(Ev::new("abort").i("at", 0).done());
        continue;
      }
    };
    for i in 0..w.days {
      sink.put(day_line(&cur, i == 0));
      if i + 1 == w.days {
        break;
      }
      match advance(&cur) {
        Some(n) => cur = n,
        None => {
          // end of the supported range ends a window silently only on 9999-12-31
          if ymd(&cur) != (9999, 12, 31) {
            let (y, m, d) = ymd(&cur);
            sink.put(Ev::new("abort").i("at", y * 10000 + m * 100 + d).done());
          }
          break;
        }
      }
    }
  }
  sink.total
}

fn accept(ctx: &Ctx, tag: &str, years: Vec<i64>) -> usize {
  let mut sink = ctx.sink("Trace_C01", tag);
  sink.segment();
  for y in years {
    for m in 0..=13i64 {
      let mut acc: Vec<i64> = Vec::new();
      let mut via_new: Vec<i64> = Vec::new();
      for d in 0..=32i64 {
        // from_ymd: a panic is the refusal; new: Err or panic is the refusal
        if catch(|| SolarDay::from_ymd(y as isize, m as usize, d as usize)).is_some() {
          acc.push(d);
        }
        if let Some(Ok(_)) = catch(|| SolarDay::new(y as isize, m as usize, d as usize)) {
          via_new.push(d);
        }
      }
      let mok = catch(|| SolarMonth::new(y as isize, m as usize)).map(|r| r.is_ok()).unwrap_or(false);
      let yok = catch(|| SolarYear::new(y as isize)).map(|r| r.is_ok()).unwrap_or(false);
      sink.put(Ev::new("acc").i("s", 1).i("y", y).i("m", m).a("a", &acc).a("n", &via_new).b("mok", mok).b("yok", yok).done());
    }
  }
  sink.total
}

fn rand_day(rng: &mut Rng) -> Option<SolarDay> {
  let j = rng.range(JDN_MIN, JDN_MAX);
  catch(|| JulianDay::from_julian_day(j as f64 - 0.5).get_solar_day())
}

fn near_day(rng: &mut Rng) -> Option<SolarDay> {
  // days around the calendar's seams
  let seams: [i64; 8] = [JDN_MIN, JDN_MAX, 2299160, 2299161, 2305448 /*1600-01-01*/, 2451545, 2298884 /*1582-01-01*/, 1757949 /*0100-12-31*/];
  let j = (*rng.pick(&seams) + rng.range(-400, 400)).clamp(JDN_MIN, JDN_MAX);
  catch(|| JulianDay::from_julian_day(j as f64 - 0.5).get_solar_day())
}

fn steps_and_pairs(ctx: &Ctx, tag: &str, count: usize, salt: u64) -> usize {
  let mut sink = ctx.sink("Trace_C01", tag);
  sink.segment();
  let mut rng = ctx.rng(salt);
  for i in 0..count {
    let a = if i % 3 == 0 { near_day(&mut rng) } else { rand_day(&mut rng) };
    let a = match a {
      Some(a) => a,
      None => {
        sink.put(Ev::new("abort").i("at", -1).done());
        continue;
      }
    };
    let (ay, am, ad) = ymd(&a);
    let aj = catch(|| a.get_julian_day().get_day()).map(jdn_of).map(|x| x.0).unwrap_or(-1);
    // step: n chosen so that the result stays in range (by day number)
    let n: i64 = match i % 5 {
      0 => rng.range(-40, 40),
      1 => rng.range(-800, 800),
      2 => rng.range(JDN_MIN - aj, JDN_MAX - aj),
      3 => *rng.pick(&[0i64, 1, -1, 365, -365, 366, -366, 1461, -1461, 36524, -36524, 146097, -146097]),
      _ => rng.range(-100000, 100000),
    };
    let n = n.clamp(JDN_MIN - aj, JDN_MAX - aj);
    let r = catch(|| ymd(&a.next(n as isize)));
    let (ry, rm, rd) = r.unwrap_or((-1, -1, -1));
    sink.put(Ev::new("st").i("s", 1).i("y", ay).i("m", am).i("d", ad).i("n", n).i("ry", ry).i("rm", rm).i("rd", rd).done());
    // pair
    let b = if i % 2 == 0 { catch(|| a.next(rng.range(-3, 3).clamp(JDN_MIN - aj, JDN_MAX - aj) as isize)) } else { rand_day(&mut rng) };
    if let Some(b) = b {
      let (by, bm, bd) = ymd(&b);
      let diff = catch(|| b.subtract(a) as i64);
      let bef = catch(|| a.is_before(b));
      let aft = catch(|| a.is_after(b));
      let eq = catch(|| a == b);
      sink.put(Ev::new("pr").i("s", 1).i("ay", ay).i("am", am).i("ad", ad).i("by", by).i("bm", bm).i("bd", bd)
        .b("ok", diff.is_some() && bef.is_some() && aft.is_some() && eq.is_some())
        .i("diff", diff.unwrap_or(0)).b("bef", bef.unwrap_or(false)).b("aft", aft.unwrap_or(false)).b("eq", eq.unwrap_or(false)).done());
    }
  }
  sink.total
}

pub fn run(ctx: &Ctx) -> usize {
  let wins = day_windows(ctx, 101, 300, 300, 2);
  let parts = deal(wins, ctx.threads);
  let years: Vec<i64> = if ctx.quick() {
    let mut v: Vec<i64> = vec![-1, 0, 1, 2, 4, 100, 400, 1000, 1500, 1580, 1581, 1582, 1583, 1584, 1599, 1600, 1700, 1800, 1900, 2000, 2023, 2024, 2100, 2400, 9996, 9998, 9999, 10000, 10001];
    let mut rng = ctx.rng(102);
    for _ in 0..1500 {
      v.push(rng.range(1, 9999));
    }
    v
  } else {
    (-1..=10001).collect()
  };
  let yparts = deal(years, ctx.threads);
  let mut total = 0usize;
  std::thread::scope(|s| {
    let mut hs = Vec::new();
    for (t, (w, ys)) in parts.into_iter().zip(yparts.into_iter()).enumerate() {
      hs.push(s.spawn(move || {
        let a = walk(ctx, &format!("walk{:02}", t), w);
        let b = accept(ctx, &format!("acc{:02}", t), ys);
        let c = steps_and_pairs(ctx, &format!("step{:02}", t), if ctx.quick() { 2500 } else { 15000 }, 1000 + t as u64);
        a + b + c
      }));
    }
    for h in hs {
      total += h.join().unwrap();
    }
  });
  total
}
