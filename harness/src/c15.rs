//! C15 — term-anchored day series.  Producer of `Trace_C15`.
//!   d : one civil day: the term days the series hang on (taken from the term objects, C06) and what the five
//!       getters answer (kind index, day index; -1 -1 = none)
use std::cell::RefCell;
use std::collections::HashMap;

use tyme4rs::tyme::solar::{SolarDay, SolarTerm};
use tyme4rs::tyme::Tyme;

use crate::c01::ymd;
use crate::daywalk::*;
use crate::lib_util::*;
use crate::windows::*;

thread_local! {
  static YEAR_TERMS: RefCell<HashMap<i64, Vec<i64>>> = RefCell::new(HashMap::new());
}

fn term_day(y: i64, i: i64) -> i64 {
  catch(|| jdn(&SolarTerm::from_index(y as isize, i as isize).get_julian_day().get_solar_day())).unwrap_or(-1)
}

/// [ws0, mz(11), xz(12), xs(13), lq(15), ws1] of civil year y
fn year_terms(y: i64) -> Vec<i64> {
  YEAR_TERMS.with(|c| {
    let mut c = c.borrow_mut();
    if c.len() > 64 {
      c.clear();
    }
    c.entry(y).or_insert_with(|| vec![term_day(y, 0), term_day(y, 11), term_day(y, 12), term_day(y, 13), term_day(y, 15), term_day(y + 1, 0)]).clone()
  })
}

/// the same six term days, asked for with RAW indices that the constructor has to carry into the neighbouring year
/// (winter solstice of y as term 24 of y-1, the summer terms as 11..15 + 24 of y-1, next winter solstice as term 24 of y)
fn year_terms_raw(y: i64) -> Vec<i64> {
  vec![term_day(y - 1, 24), term_day(y - 1, 24 + 11), term_day(y - 1, 24 + 12), term_day(y - 1, 24 + 13), term_day(y - 1, 24 + 15), term_day(y, 24)]
}

fn line(d: &SolarDay, first: bool, _p: Option<&SolarDay>) -> String {
  let (y, m, dd) = ymd(d);
  let j = jdn(d);
  // on every third day the oracle's term days are constructed afresh with raw indices immediately before the getters
  // are asked: constructing a term must leave no trace in what the series getters answer next
  let yt = if j % 3 == 0 && y >= 3 { year_terms_raw(y) } else { year_terms(y) };
  let td = catch(|| d.get_term_day());
  let (ti, tj) = td.as_ref().map(|t| (t.get_solar_term().get_index() as i64, catch(|| jdn(&t.get_solar_term().get_julian_day().get_solar_day())).unwrap_or(-1))).unwrap_or((-1, -1));
  // the day the NEXT term starts on: the assigned term must be the latest one that has started
  let tn = td.as_ref().and_then(|t| catch(|| jdn(&t.get_solar_term().next(1).get_julian_day().get_solar_day()))).unwrap_or(-1);
  // the Jie that opens the month
  let jie = td.as_ref().and_then(|t| catch(|| if t.get_solar_term().is_jie() { t.get_solar_term() } else { t.get_solar_term().next(-1) }));
  let (ji, jj) = jie.as_ref().map(|t| (t.get_index() as i64, catch(|| jdn(&t.get_julian_day().get_solar_day())).unwrap_or(-1))).unwrap_or((-1, -1));
  let nine = catch_iso(|| d.get_nine_day()).map(|o| o.map(|n| (n.get_nine().get_index() as i64, n.get_day_index() as i64)).unwrap_or((-1, -1))).unwrap_or((-9, -9));
  let dog = catch_iso(|| d.get_dog_day()).map(|o| o.map(|n| (n.get_dog().get_index() as i64, n.get_day_index() as i64)).unwrap_or((-1, -1))).unwrap_or((-9, -9));
  let plum = catch_iso(|| d.get_plum_rain_day()).map(|o| o.map(|n| (n.get_plum_rain().get_index() as i64, n.get_day_index() as i64)).unwrap_or((-1, -1))).unwrap_or((-9, -9));
  let ph = catch_iso(|| d.get_phenology_day()).map(|n| (n.get_phenology().get_index() as i64, n.get_day_index() as i64)).unwrap_or((-9, -9));
  let hs = catch_iso(|| d.get_hide_heaven_stem_day()).map(|n| {
    let t = match n.get_hide_heaven_stem().get_type().get_name().as_str() {
      "余气" => 0,
      "中气" => 1,
      "本气" => 2,
      _ => -9,
    };
    (n.get_hide_heaven_stem().get_heaven_stem().get_index() as i64, t, n.get_day_index() as i64)
  }).unwrap_or((-9, -9, -9));
  Ev::new("d").b("s", first).i("y", y).i("m", m).i("d", dd).i("j", j).a("yt", &yt).i("ti", ti).i("tj", tj).i("tn", tn).i("ji", ji).i("jj", jj)
    .a("nine", &[nine.0, nine.1]).a("dog", &[dog.0, dog.1]).a("plum", &[plum.0, plum.1]).a("ph", &[ph.0, ph.1]).a("hs", &[hs.0, hs.1, hs.2]).done()
}

pub fn run(ctx: &Ctx) -> usize {
  let mut wins = day_windows(ctx, 1501, 100, 250, 1);
  if ctx.quick() {
    // summers and winters of seeded years: where the series live
    let mut rng = ctx.rng(1502);
    for _ in 0..200 {
      let y = rng.range(2, 9997);
      wins.push(Window { start: Start::Ymd(y, 6, 1), days: 95 });
      wins.push(Window { start: Start::Ymd(y, 12, 15), days: 100 });
    }
  }
  walk_days(ctx, "Trace_C15", wins, line)
}
