//! C14 — weeks of a month.  Producer of `Trace_C14`.
//!   wm : one (civil month, week start): week count, first days and days of the listed weeks, the week of
//!        every date of the month, stepping the first and last week by n, the weeks' index in the year
//!   wl : one (lunar month, week start): the same for lunar weeks (no date->week view exists)
use tyme4rs::tyme::lunar::{LunarMonth, LunarWeek};
use tyme4rs::tyme::solar::{SolarDay, SolarMonth, SolarWeek};
use tyme4rs::tyme::Tyme;

use crate::daywalk::jdn;
use crate::lib_util::*;

const STEPS: [i64; 16] = [1, -1, 2, -2, 4, -4, 5, -5, 9, -9, 26, -26, 53, -53, 60, -60];

fn civil(y: i64, m: i64, st: i64, first: bool, all_steps: bool) -> String {
  let mo = catch(|| SolarMonth::from_ym(y as isize, m as usize));
  let cnt = mo.and_then(|mo| catch(|| mo.get_week_count(st as usize) as i64)).unwrap_or(-1);
  let weeks: Option<Vec<SolarWeek>> = mo.and_then(|mo| catch(|| mo.get_weeks(st as usize)));
  let wf: Vec<i64> = weeks.as_ref().map(|l| l.iter().map(|w| catch(|| jdn(&w.get_first_day())).unwrap_or(-1)).collect()).unwrap_or_default();
  let wi: Vec<i64> = weeks.as_ref().map(|l| l.iter().map(|w| w.get_index() as i64).collect()).unwrap_or_default();
  let wd: Vec<i64> = weeks.as_ref().map(|l| l.iter().flat_map(|w| catch(|| w.get_days()).map(|ds| ds.iter().map(jdn).collect::<Vec<i64>>()).unwrap_or(vec![-1; 7])).collect()).unwrap_or_default();
  let iy: Vec<i64> = weeks.as_ref().map(|l| l.iter().map(|w| catch(|| w.get_index_in_year() as i64).unwrap_or(-1)).collect()).unwrap_or_default();
  // acceptance of week indices around the count
  let acc: Vec<i64> = (0..=6).map(|i| catch(|| SolarWeek::new(y as isize, m as usize, i as usize, st as usize).is_ok()).map(|b| b as i64).unwrap_or(0)).collect();
  // the week of every date of the month
  let mut dj: Vec<i64> = Vec::new();
  let mut di: Vec<i64> = Vec::new();
  let mut dw: Vec<i64> = Vec::new();
  if let Some(mo) = mo {
    let n = catch(|| mo.get_day_count()).unwrap_or(0);
    let mut d: Option<SolarDay> = catch(|| SolarDay::from_ymd(y as isize, m as usize, 1));
    for k in 0..n {
      let cur = match d {
        Some(c) => c,
        None => break,
      };
      dj.push(jdn(&cur));
      let w = catch(|| cur.get_solar_week(st as usize));
      di.push(w.as_ref().map(|w| w.get_index() as i64).unwrap_or(-1));
      dw.push(w.as_ref().and_then(|w| catch(|| jdn(&w.get_first_day()))).unwrap_or(-1));
      d = if k + 1 < n { catch(|| cur.next(1)) } else { None };
    }
  }
  // stepping the first and the last listed week
  let mut nx: Vec<i64> = Vec::new();
  if let Some(l) = weeks.as_ref() {
    if !l.is_empty() {
      for (which, w) in [(0i64, &l[0]), (1, &l[l.len() - 1])] {
        let steps: Vec<i64> = if all_steps { (-60..=60).collect() } else { STEPS.to_vec() };
        for n in steps {
          // keep the result inside the supported years
          let target = y * 12 + m - 1 + n / 4;
          if target < 12 + 15 || target > 9999 * 12 - 15 {
            continue;
          }
          let r = catch(|| w.next(n as isize)).and_then(|r| catch(|| jdn(&r.get_first_day()))).unwrap_or(-1);
          nx.extend_from_slice(&[which, n, r]);
        }
        let z = catch(|| w.next(0)).and_then(|r| catch(|| jdn(&r.get_first_day()))).unwrap_or(-1);
        nx.extend_from_slice(&[which, 0, z]);
      }
    }
  }
  Ev::new("wm").b("s", first).i("y", y).i("m", m).i("st", st).i("cnt", cnt).b("ok", weeks.is_some()).a("wf", &wf).a("wi", &wi).a("wd", &wd).a("iy", &iy).a("acc", &acc)
    .a("dj", &dj).a("di", &di).a("dw", &dw).a("nx", &nx).done()
}

fn lunar(mo: &LunarMonth, st: i64) -> String {
  let (y, m) = (mo.get_year() as i64, mo.get_month_with_leap() as i64);
  let f = jdn_of(mo.get_first_julian_day().get_day()).0;
  let n = mo.get_day_count() as i64;
  let cnt = catch_iso(|| mo.get_week_count(st as usize) as i64).unwrap_or(-1);
  let weeks: Option<Vec<LunarWeek>> = catch_iso(|| mo.get_weeks(st as usize));
  let wf: Vec<i64> = weeks.as_ref().map(|l| l.iter().map(|w| catch_iso(|| jdn(&w.get_first_day().get_solar_day())).unwrap_or(-1)).collect()).unwrap_or_default();
  let wd: Vec<i64> = weeks.as_ref().map(|l| l.iter().flat_map(|w| catch_iso(|| w.get_days()).map(|ds| ds.iter().map(|d| catch_iso(|| jdn(&d.get_solar_day())).unwrap_or(-1)).collect::<Vec<i64>>()).unwrap_or(vec![-1; 7])).collect()).unwrap_or_default();
  let acc: Vec<i64> = (0..=6).map(|i| catch_iso(|| LunarWeek::new(y as isize, m as isize, i as usize, st as usize).is_ok()).map(|b| b as i64).unwrap_or(0)).collect();
  let mut nx: Vec<i64> = Vec::new();
  if let Some(l) = weeks.as_ref() {
    if !l.is_empty() && y > 30 && y < 9990 {
      for (which, w) in [(0i64, &l[0]), (1, &l[l.len() - 1])] {
        for k in [0i64, 1, -1, 2, -2, 5, -5, 9, -9, 30, -30] {
          let r = catch_iso(|| w.next(k as isize)).and_then(|r| catch_iso(|| jdn(&r.get_first_day().get_solar_day()))).unwrap_or(-1);
          nx.extend_from_slice(&[which, k, r]);
        }
      }
    }
  }
  Ev::new("wl").i("s", 0).i("y", y).i("m", m).i("st", st).i("f", f).i("n", n).i("cnt", cnt).b("ok", weeks.is_some()).a("wf", &wf).a("wd", &wd).a("acc", &acc).a("nx", &nx).done()
}

pub fn run(ctx: &Ctx) -> usize {
  let mut rng = ctx.rng(1401);
  // civil months as year*12 + month-1
  let months: Vec<i64> = if ctx.quick() {
    let mut v: Vec<i64> = Vec::new();
    for (y, m) in [(1i64, 2i64), (1582, 9), (1582, 10), (1582, 11), (1583, 1), (1600, 2), (1900, 2), (2000, 2), (2023, 1), (2023, 12), (2024, 2), (2024, 6), (2024, 9), (9999, 11), (100, 2), (4, 2)] {
      v.push(y * 12 + m - 1);
    }
    for _ in 0..6000 {
      v.push(rng.range(1 * 12 + 1, 9999 * 12 + 10));
    }
    v
  } else {
    (13..=(9999 * 12 + 10)).collect()
  };
  // lunar years outside the AD 236-240 reform period (its irregular months are C03 findings); thorough: every 4th year
  let lyears: Vec<i64> = if ctx.quick() { (0..120).map(|_| rng.range(31, 9989)).chain([2020i64, 2023, 1582].into_iter()).collect() } else { (31..=9989).step_by(4).collect() };
  let lyears: Vec<i64> = lyears.into_iter().filter(|y| !(234..=242).contains(y)).collect();
  let mp = crate::windows::deal(months, ctx.threads);
  let lp = crate::windows::deal(lyears, ctx.threads);
  let mut total = 0usize;
  let quick = ctx.quick();
  std::thread::scope(|s| {
    let hs: Vec<_> = mp.into_iter().zip(lp.into_iter()).enumerate().map(|(t, (ms, lys))| {
      s.spawn(move || {
        let mut sink = ctx.sink("Trace_C14", &format!("w{:02}", t));
        sink.segment();
        let mut first = true;
        for (n, ym) in ms.iter().enumerate() {
          let (y, m) = (ym / 12, ym % 12 + 1);
          for st in 0..7 {
            // all step counts -60..60 on a slice of the months, the fixed set elsewhere
            let all = if quick { n % 40 == 0 } else { n % 500 == 0 };
            sink.put(civil(y, m, st, first, all));
            first = false;
          }
        }
        if first {
          sink.put(civil(2024, 6, 0, true, false));
        }
        for y in lys {
          let mut cur = catch_iso(|| LunarMonth::from_ym(y as isize, 1));
          let mut guard = 0;
          while let Some(mo) = cur {
            if mo.get_year() as i64 != y || guard > 13 {
              break;
            }
            guard += 1;
            for st in 0..7 {
              sink.put(lunar(&mo, st));
            }
            cur = catch_iso(|| mo.next(1));
          }
        }
        sink.total
      })
    }).collect();
    for h in hs {
      total += h.join().unwrap();
    }
  });
  total
}
