//! C09 — hour pillar, 23:00 day roll-over and the eight-character round trip.  Producer of `Trace_C09`.
//!   hc  : one (day pillar, hour) case of the TLC-generated table replayed on a real date of one of three eras
//!   ec  : a random instant: the eight characters through both views with everything needed to re-derive them
//!   sr  : an inverse search: eight characters of an instant, a year range, every returned instant re-evaluated
use std::io::{BufRead, BufReader};

use tyme4rs::tyme::eightchar::EightChar;
use tyme4rs::tyme::jd::JulianDay;
use tyme4rs::tyme::solar::{SolarTerm, SolarTime};
use tyme4rs::tyme::Tyme;

use crate::c06::{inst, term_time};
use crate::lib_util::*;

fn time_at(j: i64, h: i64, mi: i64, s: i64) -> Option<SolarTime> {
  catch(|| {
    let d = JulianDay::from_julian_day(j as f64 - 0.5).get_solar_day();
    SolarTime::from_ymd_hms(d.get_year(), d.get_month(), d.get_day(), h as usize, mi as usize, s as usize)
  })
}

fn ec4(e: &EightChar) -> Vec<i64> {
  vec![e.get_year().get_index() as i64, e.get_month().get_index() as i64, e.get_day().get_index() as i64, e.get_hour().get_index() as i64]
}

fn ints(line: &str) -> Vec<i64> {
  let mut v = Vec::new();
  let mut cur = String::new();
  for c in line.chars() {
    if c == '-' || c.is_ascii_digit() {
      cur.push(c);
    } else if !cur.is_empty() {
      if let Ok(x) = cur.parse() {
        v.push(x);
      }
      cur.clear();
    }
  }
  v
}

fn cases(ctx: &Ctx, sink: &mut Sink) {
  let path = match &ctx.cases {
    Some(p) => p.clone(),
    None => return,
  };
  let f = BufReader::new(std::fs::File::open(path).unwrap());
  // three eras: Julian dates, modern, far future
  let bases: [i64; 3] = [1_900_000, 2_460_000, 5_000_000];
  for line in f.lines() {
    let v = ints(&line.unwrap());
    if v.len() != 4 {
      continue;
    }
    let (dp, h, rd, hp) = (v[0], v[1], v[2], v[3]);
    for (era, base) in bases.iter().enumerate() {
      // the first day on or after base whose pillar is dp: pillar(j) = (j + 49) mod 60
      let j = base + ((dp - (base + 49)) % 60 + 60) % 60;
      let t = match time_at(j, h, 30, 0) {
        Some(t) => t,
        None => continue,
      };
      let lh = catch_iso(|| t.get_lunar_hour());
      let sh = catch_iso(|| t.get_sixty_cycle_hour());
      let g = |x: Option<i64>| x.unwrap_or(-9);
      let ldp = g(lh.as_ref().and_then(|l| catch_iso(|| l.get_lunar_day().get_sixty_cycle().get_index() as i64)));
      let lhp = g(lh.as_ref().and_then(|l| catch_iso(|| l.get_sixty_cycle().get_index() as i64)));
      let lslot = g(lh.as_ref().map(|l| l.get_index_in_day() as i64));
      // ... and once more on the same object after its instant-level view has been read (which fills its memo)
      let lhp2 = g(lh.as_ref().and_then(|l| catch_iso(|| { let _ = l.get_sixty_cycle_hour(); let _ = l.get_twelve_star(); l.get_sixty_cycle().get_index() as i64 })));
      let sdp = g(sh.as_ref().map(|s| s.get_day().get_index() as i64));
      let shp = g(sh.as_ref().map(|s| s.get_sixty_cycle().get_index() as i64));
      let sslot = g(sh.as_ref().map(|s| s.get_index_in_day() as i64));
      sink.put(Ev::new("hc").i("s", 0).i("era", era as i64).i("j", j).i("dp", dp).i("h", h).i("rd", rd).i("hp", hp).i("ldp", ldp).i("lhp", lhp).i("lhp2", lhp2).i("lslot", lslot).i("sdp", sdp).i("shp", shp).i("sslot", sslot).done());
    }
  }
}

/// everything needed to re-derive the eight characters of instant t
fn ec_fields(t: &SolarTime) -> (i64, i64, i64, i64, i64, i64) {
  let y = t.get_year() as i64;
  let (qj, qs) = inst(t);
  let gi = catch_iso(|| t.get_term().get_index() as i64).unwrap_or(-1);
  let lt = catch(|| SolarTerm::from_index(y as isize, 3)).and_then(|x| term_time(&x));
  let (lj, ls) = lt.as_ref().map(inst).unwrap_or((-1, -1));
  (y, qj, qs, gi, lj, ls)
}

fn compositions(ctx: &Ctx, sink: &mut Sink) {
  let mut rng = ctx.rng(901);
  let n = if ctx.quick() { 15000 } else { 450000 };
  // the early centuries between the reform seams (the seams themselves, AD 9, 24-25 and 237-240, are C02 findings, not
  // eight-character defects): year 1 from the first day every view supports, AD 10-23 where the lunar months run early
  let early: Vec<(i64, i64)> = [((1, 1, 9), (8, 10, 25)), ((9, 2, 1), (23, 12, 1)), ((25, 3, 1), (236, 12, 1)), ((240, 3, 1), (259, 12, 31))].iter().filter_map(|(a, b)| {
    let ja = catch(|| jdn_of(tyme4rs::tyme::solar::SolarDay::from_ymd(a.0, a.1, a.2).get_julian_day().get_day()).0)?;
    let jb = catch(|| jdn_of(tyme4rs::tyme::solar::SolarDay::from_ymd(b.0, b.1, b.2).get_julian_day().get_day()).0)?;
    Some((ja, jb))
  }).collect();
  for k in 0..n {
    // one in ten instants from the early centuries, the rest from AD 260 on
    let j = if k % 10 == 9 && !early.is_empty() {
      let (a, b) = early[(k / 10) as usize % early.len()];
      rng.range(a, b)
    } else {
      rng.range(1816000, 5373484 - 800)
    };
    let h = if k % 4 == 0 { *rng.pick(&[0i64, 23, 22, 1]) } else { rng.range(0, 23) };
    let t = match time_at(j, h, rng.range(0, 59), rng.range(0, 59)) {
      Some(t) => t,
      None => continue,
    };
    let (y, qj, qs, gi, lj, ls) = ec_fields(&t);
    // every third instant is reached by stepping: a neighbouring lunar hour is built, asked for its own views
    // (which fills its per-value memos) and stepped by n double-hours; the result must carry the characters of t
    let (a, b) = if k % 3 == 2 {
      let n = { let x = rng.range(1, 11); if rng.range(0, 1) == 0 { x } else { -x } };
      let lh = catch_iso(|| {
        let l0 = t.next(-7200 * n as isize).get_lunar_hour();
        let _ = l0.get_sixty_cycle_hour();
        let _ = l0.get_solar_time();
        let _ = l0.get_eight_char();
        l0.next(n as isize)
      });
      // the sexagenary hour is reached by stepping as well, on every other such instant
      let sh = if k % 2 == 0 { catch_iso(|| t.next(-7200 * n as isize).get_sixty_cycle_hour().next(7200 * n as isize)) } else { None };
      match lh {
        Some(l) => (
          catch_iso(|| ec4(&l.get_eight_char())).unwrap_or(vec![-9; 4]),
          match (k % 2 == 0, sh) {
            (true, Some(x)) => catch_iso(|| ec4(&x.get_eight_char())).unwrap_or(vec![-9; 4]),
            (true, None) => vec![-9; 4],
            _ => catch_iso(|| ec4(&l.get_sixty_cycle_hour().get_eight_char())).unwrap_or(vec![-9; 4]),
          },
        ),
        None => (vec![-9; 4], vec![-9; 4]),
      }
    } else {
      (
        catch_iso(|| ec4(&t.get_lunar_hour().get_eight_char())).unwrap_or(vec![-9; 4]),
        catch_iso(|| ec4(&t.get_sixty_cycle_hour().get_eight_char())).unwrap_or(vec![-9; 4]),
      )
    };
    sink.put(Ev::new("ec").i("s", 0).i("y", y).i("qj", qj).i("qs", qs).i("gi", gi).i("lj", lj).i("ls", ls).a("a", &a).a("b", &b).done());
  }
}

/// every day of the boundary catalogue after AD 260 (all of 1582, century years, range ends, regime switches) at the two
/// instants around the 23:00 roll and just after midnight: the day pillar must move with the civil calendar there too
fn catalogue_rolls(sink: &mut Sink) {
  use tyme4rs::tyme::solar::SolarDay;
  use tyme4rs::tyme::Tyme as _;
  for ((y, m, d), n) in crate::windows::catalogue(1) {
    if y < 260 || y > 9998 {
      continue;
    }
    let first = match catch(|| SolarDay::from_ymd(y as isize, m as usize, d as usize)) {
      Some(x) => x,
      None => continue,
    };
    for k in 0..n.min(420) {
      let day = match catch(|| first.next(k as isize)) {
        Some(x) => x,
        None => break,
      };
      for (h, mi) in [(22i64, 59i64), (23, 0), (0, 30)] {
        let t = match catch(|| SolarTime::from_ymd_hms(day.get_year(), day.get_month(), day.get_day(), h as usize, mi as usize, 0)) {
          Some(t) => t,
          None => continue,
        };
        let (yy, qj, qs, gi, lj, ls) = ec_fields(&t);
        let a = catch_iso(|| ec4(&t.get_lunar_hour().get_eight_char())).unwrap_or(vec![-9; 4]);
        let b = catch_iso(|| ec4(&t.get_sixty_cycle_hour().get_eight_char())).unwrap_or(vec![-9; 4]);
        sink.put(Ev::new("ec").i("s", 0).i("y", yy).i("qj", qj).i("qs", qs).i("gi", gi).i("lj", lj).i("ls", ls).a("a", &a).a("b", &b).done());
      }
    }
  }
}

fn searches(ctx: &Ctx, sink: &mut Sink) {
  let mut rng = ctx.rng(902);
  let n = if ctx.quick() { 1200 } else { 18000 };
  let mut done = 0;
  let mut guard = 0;
  while done < n && guard < n * 4 {
    guard += 1;
    let j = rng.range(1870000, 5373484 - 800); // from about AD 410: year ranges of +-130 stay clear of the reform seams
    let h = rng.range(0, 23);
    let t = match time_at(j, h, rng.range(0, 59), rng.range(0, 59)) {
      Some(t) => t,
      None => continue,
    };
    let y = t.get_year() as i64;
    // skip double-hours that contain a Jie instant: only a slice of them carries the characters
    let jie_near = catch_iso(|| {
      let term = t.get_term();
      let cand = [term.clone(), term.next(1)];
      cand.iter().any(|c| c.is_jie() && term_time(c).map(|x| (x.subtract(t) as i64).abs() < 2 * 7200 + 60).unwrap_or(true))
    }).unwrap_or(true);
    if jie_near {
      continue;
    }
    let ec = match catch_iso(|| t.get_lunar_hour().get_eight_char()) {
      Some(e) => e,
      None => continue,
    };
    let (y0, y1) = match done % 4 {
      0 => (y, y),
      1 => ((y - 60).max(1), (y + 60).min(9999)),
      2 => ((y - rng.range(0, 130)).max(1), (y + rng.range(0, 130)).min(9999)),
      _ => ((y - 1).max(1), (y + 1).min(9999)),
    };
    // every fifth search asks for a chart NO instant has: the probe's chart with the hour stem (or the month stem) moved
    // off the Five-Rats (Five-Tigers) rule; whatever the search returns must still carry the characters asked for
    let legal = done % 5 != 4;
    let ec = if legal {
      ec
    } else {
      let p = ec4(&ec);
      let sc = |i: i64| tyme4rs::tyme::sixtycycle::SixtyCycle::from_index(i as isize);
      let shift = 12 * rng.range(1, 4); // same branch, another stem
      if done % 10 == 4 {
        EightChar::from_sixty_cycle(sc(p[0]), sc(p[1]), sc(p[2]), sc((p[3] + shift) % 60))
      } else {
        EightChar::from_sixty_cycle(sc(p[0]), sc((p[1] + shift) % 60), sc(p[2]), sc(p[3]))
      }
    };
    let res = catch_iso(|| ec.get_solar_times(y0 as isize, y1 as isize));
    let (qj, qs) = inst(&t);
    let mut rs: Vec<i64> = Vec::new();
    let mut re: Vec<i64> = Vec::new();
    if let Some(l) = res.as_ref() {
      for r in l.iter().take(12) {
        let (a, b) = inst(r);
        rs.extend_from_slice(&[a, b, r.get_year() as i64]);
        re.extend(catch_iso(|| ec4(&r.get_lunar_hour().get_eight_char())).unwrap_or(vec![-9; 4]));
      }
    }
    sink.put(Ev::new("sr").i("s", 0).i("y", y).i("qj", qj).i("qs", qs).i("y0", y0).i("y1", y1).a("ec", &ec4(&ec)).b("lg", legal).b("ok", res.is_some()).i("n", res.as_ref().map(|l| l.len() as i64).unwrap_or(-1)).a("rs", &rs).a("re", &re).done());
    done += 1;
  }
}

pub fn run(ctx: &Ctx) -> usize {
  let mut sink = ctx.sink("Trace_C09", "ec");
  sink.segment();
  sink.put(Ev::new("begin").i("s", 1).done());
  cases(ctx, &mut sink);
  catalogue_rolls(&mut sink);
  compositions(ctx, &mut sink);
  searches(ctx, &mut sink);
  sink.total
}
