//! C02 — solar <-> lunar conversion is a bijection that preserves order.  Producer of `Trace_C02`.
//!   d  : one civil day of a walk: its lunar date and month length, both round trips, LunarDay::next(1),
//!        before/after/equality against the previous day's lunar date
//!   lm : one lunar month: acceptance of day 0..31, the civil day of each accepted day, conversions back
//!   op : an ordered pair of lunar dates from neighbouring months (incl. a month and its leap twin)
use tyme4rs::tyme::lunar::{LunarDay, LunarMonth};
use tyme4rs::tyme::solar::SolarDay;
use tyme4rs::tyme::Tyme;

use crate::c01::ymd;
use crate::daywalk::*;
use crate::lib_util::*;
use crate::windows::*;

fn l3(l: &LunarDay) -> (i64, i64, i64) {
  (l.get_year() as i64, l.get_month() as i64, l.get_day() as i64)
}

fn line(d: &SolarDay, first: bool, prev: Option<&SolarDay>) -> String {
  let (y, m, dd) = ymd(d);
  let j = jdn(d);
  let ld = catch_iso(|| d.get_lunar_day());
  let (ly, lm, ldd) = ld.as_ref().map(l3).unwrap_or((-1, 0, 0));
  let ln = ld.as_ref().and_then(|l| catch_iso(|| l.get_lunar_month().get_day_count() as i64)).unwrap_or(-1);
  let lb = ld.as_ref().and_then(|l| catch_iso(|| jdn(&l.get_solar_day()))).unwrap_or(-1);
  let lf = if ld.is_some() { catch_iso(|| jdn(&LunarDay::from_ymd(ly as isize, lm as isize, ldd as usize).get_solar_day())).unwrap_or(-1) } else { -1 };
  let n1 = ld.as_ref().and_then(|l| catch_iso(|| l3(&l.next(1)))).unwrap_or((-1, 0, 0));
  let p1 = ld.as_ref().and_then(|l| catch_iso(|| l3(&l.next(-1)))).unwrap_or((-1, 0, 0));
  // order against the previous civil day's lunar date: a = previous, b = this
  let mut o: Vec<i64> = vec![-1, -1, -1, -1, -1];
  if let (Some(p), Some(b)) = (prev, ld.as_ref()) {
    if let Some(a) = catch_iso(|| p.get_lunar_day()) {
      let f = |x: Option<bool>| x.map(|v| v as i64).unwrap_or(-1);
      o = vec![
        f(catch_iso(|| a.is_before(b.clone()))),
        f(catch_iso(|| a.is_after(b.clone()))),
        f(catch_iso(|| b.is_before(a.clone()))),
        f(catch_iso(|| b.is_after(a.clone()))),
        f(catch_iso(|| a == *b)),
      ];
    }
  }
  Ev::new("d").b("s", first).i("y", y).i("m", m).i("d", dd).i("j", j).b("ok", ld.is_some()).i("ly", ly).i("lm", lm).i("ld", ldd).i("ln", ln).i("lb", lb).i("lf", lf)
    .a("n1", &[n1.0, n1.1, n1.2]).a("p1", &[p1.0, p1.1, p1.2]).a("o", &o).done()
}

fn month_lines(ctx: &Ctx, tag: &str, ranges: Vec<(i64, i64)>) -> usize {
  let mut sink = ctx.sink("Trace_C02", tag);
  for (ya, yb) in ranges {
    sink.segment();
    let mut cur = match catch_iso(|| LunarMonth::from_ym(ya as isize, 1)) {
      Some(m) => m,
      None => continue,
    };
    let mut window: Vec<LunarMonth> = Vec::new();
    let mut bound = (yb - ya + 1) * 13 + 3;
    while (cur.get_year() as i64) <= yb && bound > 0 {
      bound -= 1;
      window.push(cur);
      match catch_iso(|| cur.next(1)) {
        Some(n) => cur = n,
        None => break,
      }
    }
    for (n, mo) in window.iter().enumerate() {
      let (y, m) = (mo.get_year() as i64, mo.get_month_with_leap() as i64);
      let len = mo.get_day_count() as i64;
      let f = jdn_of(mo.get_first_julian_day().get_day()).0;
      let mut acc: Vec<i64> = Vec::new();
      let mut sj: Vec<i64> = Vec::new();
      let mut rt: Vec<i64> = Vec::new();
      for d in 0..=31i64 {
        if let Some(Ok(l)) = catch_iso(|| LunarDay::new(y as isize, m as isize, d as usize)) {
          acc.push(d);
          let s = catch_iso(|| l.get_solar_day());
          sj.push(s.as_ref().map(jdn).unwrap_or(-1));
          // lunar -> civil -> lunar
          let back = s.and_then(|s| catch_iso(|| l3(&s.get_lunar_day()))).unwrap_or((-1, 0, 0));
          rt.push(if back == (y, m, d) { 1 } else { 0 });
        }
      }
      let lz = catch_iso(|| LunarDay::new(y as isize, m as isize, 0).is_ok()).unwrap_or(false);
      sink.put(Ev::new("lm").b("s", n == 0).i("y", y).i("m", m).i("n", len).i("f", f).a("acc", &acc).a("sj", &sj).a("rt", &rt).b("zero", lz).done());
      // ordered pairs with the next two months (a month, its leap twin, the month after)
      for k in 1..=2usize {
        if n + k >= window.len() {
          break;
        }
        let other = &window[n + k];
        let (y2, m2) = (other.get_year() as i64, other.get_month_with_leap() as i64);
        let len2 = other.get_day_count() as i64;
        for da in [1i64, 15, len] {
          for db in [1i64, 15, len2] {
            let a = catch_iso(|| LunarDay::from_ymd(y as isize, m as isize, da as usize));
            let b = catch_iso(|| LunarDay::from_ymd(y2 as isize, m2 as isize, db as usize));
            if let (Some(a), Some(b)) = (a, b) {
              let ja = catch_iso(|| jdn(&a.get_solar_day())).unwrap_or(-1);
              let jb = catch_iso(|| jdn(&b.get_solar_day())).unwrap_or(-1);
              let fl = |x: Option<bool>| x.map(|v| v as i64).unwrap_or(-1);
              let o = vec![
                fl(catch_iso(|| a.is_before(b.clone()))),
                fl(catch_iso(|| a.is_after(b.clone()))),
                fl(catch_iso(|| b.is_before(a.clone()))),
                fl(catch_iso(|| b.is_after(a.clone()))),
                fl(catch_iso(|| a == b)),
              ];
              sink.put(Ev::new("op").i("s", 0).a("a", &[y, m, da]).a("b", &[y2, m2, db]).i("ja", ja).i("jb", jb).a("o", &o).done());
            }
          }
        }
      }
    }
  }
  sink.total
}

pub fn run(ctx: &Ctx) -> usize {
  let mut wins = day_windows(ctx, 201, 200, 300, 2);
  if ctx.quick() {
    // two days in mid-January of EVERY year: the weeks before the lunar new year are where one wrong entry of the
    // leap-month table (or one mislabelled lunation) shows in the civil <-> lunar conversion
    for y in 30..=9998i64 {
      if (236..=240).contains(&y) {
        continue; // reform seam: covered (with its known findings) by the catalogue windows
      }
      wins.push(Window { start: Start::Ymd(y, 1, 15), days: 2 });
    }
  }
  let a = walk_days(ctx, "Trace_C02", wins, line);
  let ranges: Vec<(i64, i64)> = if ctx.quick() {
    let mut v: Vec<(i64, i64)> = vec![(0, 3), (7, 26), (235, 241), (1644, 1646), (1959, 1962), (2019, 2026), (7999, 8002), (9996, 9999)];
    let mut rng = ctx.rng(202);
    for _ in 0..150 {
      let a = rng.range(27, 9990);
      v.push((a, a + 3));
    }
    v
  } else {
    let mut v = Vec::new();
    let mut a = 0;
    while a <= 9999 {
      v.push((a, (a + 49).min(9999)));
      a += 50;
    }
    v
  };
  let parts = deal(ranges, ctx.threads);
  let mut b = 0usize;
  std::thread::scope(|s| {
    let hs: Vec<_> = parts.into_iter().enumerate().map(|(t, p)| s.spawn(move || month_lines(ctx, &format!("m{:02}", t), p))).collect();
    for h in hs {
      b += h.join().unwrap();
    }
  });
  a + b
}
