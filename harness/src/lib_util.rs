//! Shared plumbing of the trace harness: NDJSON shard writer, event builder, panic capture, PRNG.
use std::fs::{self, File};
use std::io::{BufWriter, Write};
use std::panic::{self, AssertUnwindSafe};
use std::path::{Path, PathBuf};

/// Run a library call; a panic is data (None), never a crash of the harness.
pub fn catch<T>(f: impl FnOnce() -> T) -> Option<T> {
  panic::catch_unwind(AssertUnwindSafe(f)).ok()
}

/// events written so far by all sinks: the watchdog's notion of progress
pub static PROGRESS: std::sync::atomic::AtomicU64 = std::sync::atomic::AtomicU64::new(0);
/// producers that legitimately spend long without writing (waiting for fresh processes) tick this by hand
pub fn tick() {
  PROGRESS.fetch_add(1, std::sync::atomic::Ordering::Relaxed);
}

/// A call into the library that never returns cannot be caught by `catch`: a watchdog thread ends the harness with exit
/// code 4 when no event has been written for `stall` seconds.  The driver reports that as a violation (a request that
/// never returns), not as a tool error.
pub fn watchdog(stall: u64) {
  std::thread::spawn(move || {
    let mut last = PROGRESS.load(std::sync::atomic::Ordering::Relaxed);
    let mut since = std::time::Instant::now();
    loop {
      std::thread::sleep(std::time::Duration::from_secs(2));
      let now = PROGRESS.load(std::sync::atomic::Ordering::Relaxed);
      if now != last {
        last = now;
        since = std::time::Instant::now();
      } else if since.elapsed().as_secs() >= stall {
        println!("HANG no event for {} s after {} events: a call into the library does not return", stall, now);
        std::process::exit(4);
      }
    }
  });
}

pub fn silence_panics() {
  panic::set_hook(Box::new(|_| {}));
}

/// empties the lunar month memo and clears a poisoned lock (guarded hook in /repo)
pub fn cache_reset() {
  tyme4rs::tyme::lunar::verif_hooks::cache_reset();
}

/// `catch` that also repairs the memo if the call left it poisoned, so one refused request cannot
/// turn every later event of an unrelated property into noise (C10 itself never uses this)
pub fn catch_iso<T>(f: impl FnOnce() -> T) -> Option<T> {
  let r = catch(f);
  if r.is_none() && tyme4rs::tyme::lunar::verif_hooks::cache_poisoned() {
    cache_reset();
  }
  r
}

/// One JSON object per line; integers, integer arrays and the event kind only.
pub struct Ev {
  s: String,
}

impl Ev {
  pub fn new(kind: &str) -> Ev {
    let mut s = String::with_capacity(256);
    s.push_str("{\"k\":\"");
    s.push_str(kind);
    s.push('"');
    Ev { s }
  }
  pub fn i(mut self, key: &str, v: i64) -> Ev {
    self.s.push_str(",\"");
    self.s.push_str(key);
    self.s.push_str("\":");
    self.s.push_str(&v.to_string());
    self
  }
  pub fn b(self, key: &str, v: bool) -> Ev {
    self.i(key, if v { 1 } else { 0 })
  }
  pub fn a(mut self, key: &str, v: &[i64]) -> Ev {
    self.s.push_str(",\"");
    self.s.push_str(key);
    self.s.push_str("\":[");
    for (n, x) in v.iter().enumerate() {
      if n > 0 {
        self.s.push(',');
      }
      self.s.push_str(&x.to_string());
    }
    self.s.push(']');
    self
  }
  pub fn s(mut self, key: &str, v: &str) -> Ev {
    self.s.push_str(",\"");
    self.s.push_str(key);
    self.s.push_str("\":\"");
    for c in v.chars() {
      match c {
        '"' => self.s.push_str("\\\""),
        '\\' => self.s.push_str("\\\\"),
        _ => self.s.push(c),
      }
    }
    self.s.push('"');
    self
  }
  /// array of strings
  pub fn sa(mut self, key: &str, v: &[String]) -> Ev {
    self.s.push_str(",\"");
    self.s.push_str(key);
    self.s.push_str("\":[");
    for (n, x) in v.iter().enumerate() {
      if n > 0 {
        self.s.push(',');
      }
      self.s.push('"');
      for c in x.chars() {
        match c {
          '"' => self.s.push_str("\\\""),
          '\\' => self.s.push_str("\\\\"),
          _ => self.s.push(c),
        }
      }
      self.s.push('"');
    }
    self.s.push(']');
    self
  }
  pub fn done(mut self) -> String {
    self.s.push('}');
    self.s
  }
}

/// Writes `<dir>/<spec>.<tag>-<nnn>.ndjson`; rotates only where the producer says a segment starts.
pub struct Sink {
  dir: PathBuf,
  spec: String,
  tag: String,
  shard: usize,
  lines: usize,
  max: usize,
  w: Option<BufWriter<File>>,
  pub total: usize,
}

impl Sink {
  pub fn new(dir: &Path, spec: &str, tag: &str, max: usize) -> Sink {
    fs::create_dir_all(dir).unwrap();
    Sink { dir: dir.to_path_buf(), spec: spec.to_string(), tag: tag.to_string(), shard: 0, lines: 0, max, w: None, total: 0 }
  }
  fn open(&mut self) {
    let p = self.dir.join(format!("{}.{}-{:04}.ndjson", self.spec, self.tag, self.shard));
    self.w = Some(BufWriter::with_capacity(1 << 20, File::create(p).unwrap()));
    self.lines = 0;
  }
  /// call before the first event of a segment (an event carrying "s":1)
  pub fn segment(&mut self) {
    if self.w.is_some() && self.lines >= self.max {
      self.w.take().unwrap().flush().unwrap();
      self.shard += 1;
    }
  }
  pub fn put(&mut self, line: String) {
    PROGRESS.fetch_add(1, std::sync::atomic::Ordering::Relaxed);
    if self.w.is_none() {
      self.open();
    }
    let w = self.w.as_mut().unwrap();
    w.write_all(line.as_bytes()).unwrap();
    w.write_all(b"\n").unwrap();
    self.lines += 1;
    self.total += 1;
  }
  pub fn close(&mut self) {
    if let Some(mut w) = self.w.take() {
      w.flush().unwrap();
    }
  }
}

impl Drop for Sink {
  fn drop(&mut self) {
    self.close();
  }
}

/// splitmix64: every random choice of the harness derives from VERIF_SEED through this
#[derive(Clone)]
pub struct Rng(pub u64);

impl Rng {
  pub fn new(seed: u64) -> Rng {
    Rng(seed ^ 0x9E37_79B9_7F4A_7C15)
  }
  pub fn next(&mut self) -> u64 {
    self.0 = self.0.wrapping_add(0x9E37_79B9_7F4A_7C15);
    let mut z = self.0;
    z = (z ^ (z >> 30)).wrapping_mul(0xBF58_476D_1CE4_E5B9);
    z = (z ^ (z >> 27)).wrapping_mul(0x94D0_49BB_1331_11EB);
    z ^ (z >> 31)
  }
  /// uniform in lo..=hi
  pub fn range(&mut self, lo: i64, hi: i64) -> i64 {
    let span = (hi - lo + 1) as u64;
    lo + (self.next() % span) as i64
  }
  pub fn pick<'a, T>(&mut self, v: &'a [T]) -> &'a T {
    &v[(self.next() % v.len() as u64) as usize]
  }
  pub fn fork(&mut self) -> Rng {
    Rng(self.next())
  }
}

#[derive(Clone, Copy, PartialEq, Eq, Debug)]
pub enum Tier {
  Quick,
  Thorough,
}

#[derive(Clone)]
pub struct Ctx {
  pub tier: Tier,
  pub seed: u64,
  pub out: PathBuf,
  pub threads: usize,
  pub cases: Option<PathBuf>,
}

impl Ctx {
  pub fn quick(&self) -> bool {
    self.tier == Tier::Quick
  }
  pub fn rng(&self, salt: u64) -> Rng {
    Rng::new(self.seed.wrapping_mul(0x1000_0000_01B3).wrapping_add(salt))
  }
  pub fn sink(&self, spec: &str, tag: &str) -> Sink {
    Sink::new(&self.out, spec, tag, 60_000)
  }
}

/// Julian day number (noon based) of a library JulianDay value, and whether its fraction is exactly .5
pub fn jdn_of(day: f64) -> (i64, bool) {
  let j = (day + 0.5).floor();
  (j as i64, day + 0.5 == j)
}

/// split lo..=hi into n contiguous chunks
pub fn chunks(lo: i64, hi: i64, n: usize) -> Vec<(i64, i64)> {
  let total = hi - lo + 1;
  let n = n.max(1) as i64;
  let mut v = Vec::new();
  let mut a = lo;
  for k in 0..n {
    let len = total / n + if k < total % n { 1 } else { 0 };
    if len <= 0 {
      continue;
    }
    v.push((a, a + len - 1));
    a += len;
  }
  v
}
