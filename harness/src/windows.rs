//! Where the walks go: a fixed boundary catalogue plus seed-chosen random windows (quick tier),
//! or the complete range split over threads (thorough tier).
use crate::lib_util::*;

pub const JDN_MIN: i64 = 1721424; // 0001-01-01
pub const JDN_MAX: i64 = 5373484; // 9999-12-31

/// (first day as y,m,d, number of days)
pub type Win = ((i64, i64, i64), i64);

/// boundary catalogue shared by the day walks; `scale` stretches the long windows
pub fn catalogue(scale: i64) -> Vec<Win> {
  let mut v: Vec<Win> = vec![
    ((1, 1, 1), 400 * scale),
    ((4, 2, 20), 20),
    ((100, 2, 20), 20),
    ((300, 2, 20), 20),
    ((1000, 2, 20), 20),
    ((1500, 2, 20), 20),
    ((1581, 12, 20), 420),
    ((1583, 12, 20), 80),
    ((1599, 12, 20), 90),
    ((1700, 2, 20), 20),
    ((1800, 2, 20), 20),
    ((1899, 12, 20), 90),
    ((1999, 12, 20), 90),
    ((2100, 2, 20), 20),
    ((2399, 12, 20), 90),
    ((4000, 2, 20), 20),
    ((8000, 2, 20), 20),
    ((9998, 12, 1), 396),
  ];
  // the two hard-coded lunar reform periods and the switch of the astronomical regimes
  v.push(((8, 11, 1), 300 * scale));
  // AD 10-22: lunar months run one lunation early (first-month offset 1); the civil->lunar search walks forward here only
  v.push(((10, 5, 1), 4600));
  v.push(((23, 11, 1), 200 * scale));
  v.push(((236, 11, 1), 200 * scale));
  v.push(((239, 11, 1), 200 * scale));
  v.push(((1644, 11, 1), 120 * scale));
  v.push(((1959, 11, 1), 120 * scale));
  v.push(((7274, 12, 1), 120 * scale));
  v.push(((8715, 12, 1), 120 * scale));
  v
}

pub fn random_windows(rng: &mut Rng, count: usize, len: i64) -> Vec<(i64, i64)> {
  (0..count).map(|_| {
    let a = rng.range(JDN_MIN, JDN_MAX - len);
    (a, a + len - 1)
  }).collect()
}

/// windows as day-number intervals: start date is resolved by the caller through the library
pub enum Start {
  Ymd(i64, i64, i64),
  Jdn(i64),
}

pub struct Window {
  pub start: Start,
  pub days: i64,
}

pub fn day_windows(ctx: &Ctx, salt: u64, quick_random: usize, quick_len: i64, scale: i64) -> Vec<Window> {
  let mut v: Vec<Window> = Vec::new();
  if ctx.quick() {
    for ((y, m, d), n) in catalogue(scale) {
      v.push(Window { start: Start::Ymd(y, m, d), days: n });
    }
    let mut rng = ctx.rng(salt);
    for (a, b) in random_windows(&mut rng, quick_random, quick_len) {
      v.push(Window { start: Start::Jdn(a), days: b - a + 1 });
    }
  } else {
    // complete range in segments that overlap by one day so that every adjacent pair is related
    let seg: i64 = 30_000;
    let mut a = JDN_MIN;
    while a <= JDN_MAX {
      let b = (a + seg).min(JDN_MAX);
      v.push(Window { start: Start::Jdn(a), days: b - a + 1 });
      if b == JDN_MAX {
        break;
      }
      a = b;
    }
  }
  v
}

/// distribute windows over threads round-robin
pub fn deal<T>(items: Vec<T>, n: usize) -> Vec<Vec<T>> {
  let n = n.max(1);
  let mut out: Vec<Vec<T>> = (0..n).map(|_| Vec::new()).collect();
  for (i, it) in items.into_iter().enumerate() {
    out[i % n].push(it);
  }
  out
}

/// Day numbers of the windows in which the library's lunar calendar is known to be irregular (the two hard-coded reform
/// periods: open findings of C02 / C03 / C07 / C17) and the first days of year 1 (no solar term before them): samplers of
/// properties that do not own those findings draw their days outside these windows.
pub fn in_seam(j: i64) -> bool {
  // 0001-01-01..01-09 | 0008-11-01..0009-03-01 | 0023-11-01..0025-03-31 | 0236-11-01..0237-03-31 | 0239-11-01..0240-03-31
  const W: [(i64, i64); 5] = [(1721424, 1721432), (1724285, 1724405), (1729763, 1730279), (1807562, 1807712), (1808657, 1808808)];
  W.iter().any(|(a, b)| j >= *a && j <= *b)
}

/// a uniformly drawn day number in lo..=hi outside the seam windows
pub fn sample_day(rng: &mut Rng, lo: i64, hi: i64) -> i64 {
  loop {
    let j = rng.range(lo, hi);
    if !in_seam(j) {
      return j;
    }
  }
}
