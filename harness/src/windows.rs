//! Where the walks go: a fixed boundary catalogue plus seed-chosen random windows (quick tier),
//! or the complete range split over threads (thorough tier).
use crate::lib_util::*;

pub const JDN_MIN: i64 = 1721424; // 0001-01-01
pub const JDN_MAX: i64 = 5373484; // 9999-12-31

/// (first day as y,m,d, number of days)
pub type Win = ((i64, i64, i64), i64);

/// boundary catalogue shared by the day walks; `scale` stretches the long windows
pub fn catalogue(scale: i64) -> Vec<Win> {
  let mut v: Vec<Win> = vec![
    ((1, 1, 1), 400 * scale),
    ((4, 2, 20), 20),
    ((100, 2, 20), 20),
    ((300, 2, 20), 20),
    ((1000, 2, 20), 20),
    ((1500, 2, 20), 20),
    ((1581, 12, 20), 420),
    ((1583, 12, 20), 80),
    ((1599, 12, 20), 90),
    ((1700, 2, 20), 20),
    ((1800, 2, 20), 20),
    ((1899, 12, 20), 90),
    ((1999, 12, 20), 90),
    ((2100, 2, 20), 20),
    ((2399, 12, 20), 90),
    ((4000, 2, 20), 20),
    ((8000, 2, 20), 20),
    ((9998, 12, 1), 396),
  ];
  // the two hard-coded lunar reform periods and the switch of the astronomical regimes
  v.push(((8, 11, 1), 300 * scale));
  // AD 10-22: lunar months run one lunation early (first-month offset 1); the civil->lunar search walks forward here only
  v.push(((10, 5, 1), 4600));
  v.push(((23, 11, 1), 200 * scale));
  v.push(((236, 11, 1), 200 * scale));
  v.push(((239, 11, 1), 200 * scale));
  v.push(((1644, 11, 1), 120 * scale));
  v.push(((1959, 11, 1), 120 * scale));
  v.push(((7274, 12, 1), 120 * scale));
  v.push(((8715, 12, 1), 120 * scale));
  v
}

pub fn random_windows(rng: &mut Rng, count: usize, len: i64) -> Vec<(i64, i64)> {
  (0..count).map(|_| {
    let a = rng.range(JDN_MIN, JDN_MAX - len);
    (a, a + len - 1)
  }).collect()
}

/// windows as day-number intervals: start date is resolved by the caller through the library
pub enum Start {
  Ymd(i64, i64, i64),
  Jdn(i64),
}

pub struct Window {
  pub start: Start,
  pub days: i64,
}

pub fn day_windows(ctx: &Ctx, salt: u64, quick_random: usize, quick_len: i64, scale: i64) -> Vec<Window> {
  let mut v: Vec<Window> = Vec::new();
  if ctx.quick() {
    for ((y, m, d), n) in catalogue(scale) {
      v.push(Window { start: Start::Ymd(y, m, d), days: n });
    }
    let mut rng = ctx.rng(salt);
    for (a, b) in random_windows(&mut rng, quick_random, quick_len) {
      v.push(Window { start: Start::Jdn(a), days: b - a + 1 });
    }
  } else {
    // complete range in segments that overlap by one day so that every adjacent pair is related
    let seg: i64 = 30_000;
    let mut a = JDN_MIN;
    while a <= JDN_MAX {
      let b = (a + seg).min(JDN_MAX);
      v.push(Window { start: Start::Jdn(a), days: b - a + 1 });
      if b == JDN_MAX {
        break;
      }
      a = b;
    }
  }
  v
}

/// distribute windows over threads round-robin
pub fn deal<T>(items: Vec<T>, n: usize) -> Vec<Vec<T>> {
  let n = n.max(1);
  let mut out: Vec<Vec<T>> = (0..n).map(|_| Vec::new()).collect();
  for (i, it) in items.into_iter().enumerate() {
    out[i % n].push(it);
  }
  out
}
