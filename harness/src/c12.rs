//! C12 — clock arithmetic to the second and Julian-date <-> clock conversion.  Producer of `Trace_C12`.
//!   add : SolarTime::next(n): instant, n, result
//!   sub : a pair of instants: subtract (split into whole days and seconds), is_before / is_after / ==
//!   rt  : instant -> Julian date -> instant
//!   jd  : a Julian date given as (day number, millisecond of day) -> get_solar_time / get_solar_day
//!   mk  : JulianDay::from_ymd_hms of an instant -> (day number, millisecond of day)
use tyme4rs::tyme::jd::JulianDay;
use tyme4rs::tyme::solar::SolarTime;
use tyme4rs::tyme::Tyme;

use crate::c06::inst;
use crate::daywalk::jdn;
use crate::lib_util::*;
use crate::windows::{JDN_MAX, JDN_MIN};

fn time_at(j: i64, s: i64) -> Option<SolarTime> {
  catch(|| {
    let d = JulianDay::from_julian_day(j as f64 - 0.5).get_solar_day();
    SolarTime::from_ymd_hms(d.get_year(), d.get_month(), d.get_day(), (s / 3600) as usize, ((s / 60) % 60) as usize, (s % 60) as usize)
  })
}

fn fields(t: &SolarTime) -> [i64; 6] {
  [t.get_year() as i64, t.get_month() as i64, t.get_day() as i64, t.get_hour() as i64, t.get_minute() as i64, t.get_second() as i64]
}

/// interesting day numbers: ordinary, month ends, year ends, leap days, the 1582 seam, range ends
fn special_days(rng: &mut Rng) -> Vec<i64> {
  let mut v = vec![JDN_MIN, JDN_MIN + 1, JDN_MAX, JDN_MAX - 1, 2299160, 2299161, 2299159, 2299162, 2451544, 2451545, 2451604 /* 2000-02-29 */, 2415079 /* 1900-02-28 */];
  for _ in 0..40 {
    // last day of a random month: first of next month minus one, via the library's own month stepping is avoided: use day numbers near 1st
    let j = rng.range(JDN_MIN + 40, JDN_MAX - 40);
    if let Some(d) = catch(|| JulianDay::from_julian_day(j as f64 - 0.5).get_solar_day()) {
      let first = j - d.get_day() as i64 + 1;
      v.push(first - 1);
      v.push(first);
    }
  }
  v
}

pub fn run(ctx: &Ctx) -> usize {
  let mut sink = ctx.sink("Trace_C12", "clk");
  sink.segment();
  let mut rng = ctx.rng(1201);
  let mut first = true;
  let mut s1 = move || {
    let r = first;
    first = false;
    r
  };
  let mut days = special_days(&mut rng);
  // every day of 1582-09-20 .. 1582-11-10 (day numbers 2299146..2299187 run through the ten dropped dates)
  days.extend(2299146i64..=2299187);
  let secs: [i64; 12] = [0, 1, 59, 60, 3599, 3600, 43199, 43200, 82800, 86340, 86398, 86399];
  let scale = if ctx.quick() { 5 } else { 150 };
  // add
  for round in 0..(2500 * scale) {
    let j = if round % 2 == 0 { *rng.pick(&days) } else { rng.range(JDN_MIN, JDN_MAX) };
    let s = if round % 3 == 0 { *rng.pick(&secs) } else { rng.range(0, 86399) };
    let t = match time_at(j, s) {
      Some(t) => t,
      None => continue,
    };
    let n: i64 = match round % 7 {
      0 => *rng.pick(&[0i64, 1, -1, 59, -59, 60, -60, 61, 3600, -3600, 3599, 86399, -86399, 86400, -86400, 86401, -86401, 172800]),
      1 => rng.range(-120, 120),
      // whole days (and a little more) up to +-40 days: steps that stay in one month number or cross the 1582 gap
      2 => 86400 * rng.range(-40, 40) + *rng.pick(&[0i64, 0, 1, -1, 3600]),
      3 => rng.range(-1_000_000_000, 1_000_000_000),
      4 => -(s + 1),
      5 => 86400 - s,
      _ => if round % 14 == 6 { rng.range(-100_000, 100_000) } else { rng.range(-40_000_000, 40_000_000) },
    };
    // keep the result in range (by day number)
    let tj = j + (s + n).div_euclid(86400);
    if tj < JDN_MIN || tj > JDN_MAX {
      continue;
    }
    let r = catch(|| t.next(n as isize));
    let (rj, rs) = r.as_ref().map(inst).unwrap_or((-1, -1));
    let rf = r.as_ref().map(fields).unwrap_or([-1; 6]);
    sink.put(Ev::new("add").b("s", s1()).i("j", j).i("sec", s).i("n", n).b("ok", r.is_some()).i("rj", rj).i("rs", rs).a("f", &rf).done());
    // round trip through the Julian date
    if let Some(r) = r {
      let back = catch(|| r.get_julian_day().get_solar_time());
      let (bj, bs) = back.as_ref().map(inst).unwrap_or((-1, -1));
      sink.put(Ev::new("rt").i("s", 0).i("j", rj).i("sec", rs).b("ok", back.is_some()).i("bj", bj).i("bs", bs).done());
      let jd = catch(|| r.get_julian_day().get_day()).unwrap_or(-1.0);
      let mj = (jd + 0.5).floor();
      let ms = ((jd + 0.5 - mj) * 86_400_000.0).round() as i64;
      sink.put(Ev::new("mk").i("s", 0).i("j", rj).i("sec", rs).i("mj", mj as i64).i("ms", ms).done());
    }
  }
  // pairs
  for round in 0..(1500 * scale) {
    let ja = if round % 2 == 0 { *rng.pick(&days) } else { rng.range(JDN_MIN, JDN_MAX) };
    let sa = rng.range(0, 86399);
    let (jb, sb) = match round % 4 {
      0 => (ja, rng.range(0, 86399)),
      1 => (ja + rng.range(-2, 2), *rng.pick(&secs)),
      2 => (rng.range(JDN_MIN, JDN_MAX), rng.range(0, 86399)),
      _ => (ja, sa),
    };
    if jb < JDN_MIN || jb > JDN_MAX {
      continue;
    }
    let (a, b) = match (time_at(ja, sa), time_at(jb, sb)) {
      (Some(a), Some(b)) => (a, b),
      _ => continue,
    };
    let diff = catch(|| b.subtract(a) as i64);
    let (dd, ds) = diff.map(|d| (d.div_euclid(86400), d.rem_euclid(86400))).unwrap_or((0, -1));
    let bef = catch(|| a.is_before(b));
    let aft = catch(|| a.is_after(b));
    let eq = catch(|| a == b);
    sink.put(Ev::new("sub").b("s", s1()).i("ja", ja).i("sa", sa).i("jb", jb).i("sb", sb).b("ok", diff.is_some() && bef.is_some() && aft.is_some()).i("dd", dd).i("ds", ds)
      .b("bef", bef.unwrap_or(false)).b("aft", aft.unwrap_or(false)).b("eq", eq.unwrap_or(false)).done());
  }
  // Julian dates on a millisecond grid around every rounding / carry boundary
  let fracs: [i64; 8] = [0, 250, 499, 501, 750, 999, 502, 498];
  let jsecs: [i64; 9] = [0, 59, 3599, 43199, 43200, 82799, 86339, 86398, 86399];
  // the complete grid special day x boundary second x fraction (every day of October 1582 included), then seeded points
  let mut grid: Vec<(i64, i64)> = Vec::new();
  let mut gdays: Vec<i64> = days.clone();
  for j in 2299150..=2299182 {
    gdays.push(j);
  }
  gdays.sort();
  gdays.dedup();
  for j in gdays.iter() {
    for s in jsecs.iter() {
      for f in fracs.iter() {
        grid.push((*j, s * 1000 + f));
      }
    }
  }
  let ngrid = grid.len();
  for round in 0..(ngrid + 3000 * scale as usize) {
    let (j, ms) = if round < ngrid {
      grid[round]
    } else {
      let j = if round % 3 != 2 { *rng.pick(&days) } else { rng.range(JDN_MIN, JDN_MAX) };
      let s = if round % 4 == 3 { rng.range(0, 86399) } else { *rng.pick(&jsecs) };
      (j, s * 1000 + if round % 5 == 4 { rng.range(0, 999) } else { *rng.pick(&fracs) })
    };
    let x = (j as f64 - 0.5) + (ms as f64) / 86_400_000.0;
    let t = catch(|| JulianDay::from_julian_day(x).get_solar_time());
    let (rj, rs) = t.as_ref().map(inst).unwrap_or((-1, -1));
    let d = catch(|| JulianDay::from_julian_day(x).get_solar_day());
    let dj = d.as_ref().map(jdn).unwrap_or(-1);
    sink.put(Ev::new("jd").b("s", s1()).i("j", j).i("ms", ms).b("ok", t.is_some()).i("rj", rj).i("rs", rs).b("dok", d.is_some()).i("dj", dj).done());
  }
  sink.total
}
