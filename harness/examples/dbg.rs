use tyme4rs::tyme::solar::*;
use tyme4rs::tyme::Tyme;
fn main() {
  // margin of the repaired term lookup: day of term 2m+2 minus the first day of month m+1 (must be >= 0)
  let mut min_next = (i64::MAX, 0, 0);
  // and of the start term itself: term 2m+1 should start on or before the last day ... no requirement; report the max lateness of term 2m+1 (start after month end is fine)
  let mut min_start = (i64::MAX, 0, 0);
  for y in 1..=9998isize {
    for m in 1..=12usize {
      let first_next = SolarMonth::from_ym(y, m).next(1).get_days()[0];
      let (ty, ti) = if m * 2 + 2 >= 24 { (y + 1, (m * 2 + 2 - 24) as isize) } else { (y, (m * 2 + 2) as isize) };
      let t = SolarTerm::from_index(ty, ti).get_julian_day().get_solar_day();
      let margin = t.subtract(first_next) as i64;
      if margin < min_next.0 { min_next = (margin, y, m); }
      let (sy, si) = if m * 2 + 1 >= 24 { (y + 1, (m * 2 + 1 - 24) as isize) } else { (y, (m * 2 + 1) as isize) };
      let s = SolarTerm::from_index(sy, si).get_julian_day().get_solar_day();
      let ms = s.subtract(first_next) as i64;
      if ms < min_start.0 { min_start = (ms, y, m); }
    }
  }
  println!("min (term 2m+2 day - first day of month m+1) = {:?}", min_next);
  println!("min (term 2m+1 day - first day of month m+1) = {:?}", min_start);
}
