use std::time::Instant;
use tyme4rs::tyme::lunar::*;
use tyme4rs::tyme::solar::*;
use tyme4rs::tyme::Tyme;
fn main() {
  let t = Instant::now();
  let w = SolarDay::from_ymd(2000, 1, 1).get_solar_week(0);
  for n in [1000isize, 10000, 100000, 400000] { let t = Instant::now(); let _ = w.next(n); println!("SolarWeek next({}) {:?}", n, t.elapsed()); }
  let l = SolarDay::from_ymd(2000, 1, 1).get_lunar_day();
  let lw = l.get_lunar_month().get_weeks(0)[1].clone();
  for n in [1000isize, 10000, 100000, 300000] { let t = Instant::now(); let _ = lw.next(n); println!("LunarWeek next({}) {:?}", n, t.elapsed()); }
  for n in [1000isize, 100000, 2000000] { let t = Instant::now(); let _ = l.next(n); println!("LunarDay next({}) {:?}", n, t.elapsed()); }
  let sd = SolarDay::from_ymd(2000, 1, 1).get_sixty_cycle_day();
  for n in [1000isize, 100000, 2000000] { let t = Instant::now(); let _ = sd.next(n); println!("SixtyCycleDay next({}) {:?}", n, t.elapsed()); }
  let lh = SolarTime::from_ymd_hms(2000, 1, 1, 3, 0, 0).get_lunar_hour();
  for n in [1000isize, 100000] { let t = Instant::now(); let _ = lh.next(n); println!("LunarHour next({}) {:?}", n, t.elapsed()); }
  let lm = LunarMonth::from_ym(2000, 1);
  for n in [100isize, 3000, 30000] { let t = Instant::now(); let _ = lm.next(n); println!("LunarMonth next({}) {:?}", n, t.elapsed()); }
  let sh = SolarTime::from_ymd_hms(2000, 1, 1, 3, 0, 0).get_sixty_cycle_hour();
  for n in [1000isize, 900000000] { let t = Instant::now(); let _ = sh.next(n); println!("SixtyCycleHour next({}) {:?}", n, t.elapsed()); }
  println!("{:?}", t.elapsed());
}
