use tyme4rs::tyme::solar::*;
fn main() {
  for (y,m,d) in [(1,1,1),(1,1,9),(8,11,1),(9,3,1),(23,11,1),(25,3,31),(236,11,1),(237,3,31),(239,11,1),(240,3,31)] {
    let j = (SolarDay::from_ymd(y,m,d).get_julian_day().get_day() + 0.5).floor() as i64;
    println!("{}-{}-{} {}", y,m,d,j);
  }
}
