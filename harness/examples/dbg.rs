use tyme4rs::tyme::solar::{SolarTerm, SolarTime};
use tyme4rs::tyme::Tyme;
use tyme4rs::tyme::Culture;
fn main() {
  for y in [24isize, 25, 240, 9, 237] {
    let li = SolarTerm::from_index(y, 3).get_julian_day().get_solar_time();
    println!("lichun {} = {}", y, li.to_string());
    for off in [-6 * 86400isize, -3600, 3600, 6 * 86400] {
      let t = li.next(off);
      let h = t.get_sixty_cycle_hour();
      let ld = t.get_lunar_hour().get_lunar_day();
      let d = t.get_solar_day().get_sixty_cycle_day();
      println!("  {} hourview year={} month={} | dayview year={} month={} | lunar {} (year {})", t.to_string(), h.get_year().get_name(), h.get_month().get_name(), d.get_year().get_name(), d.get_month().get_name(), ld.to_string(), ld.get_lunar_month().get_lunar_year().get_year());
    }
  }
}
