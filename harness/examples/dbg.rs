use tyme4rs::tyme::solar::{SolarTerm, SolarTime, SolarDay};
use tyme4rs::tyme::sixtycycle::SixtyCycle;
use tyme4rs::tyme::Tyme;
fn main() {
  let t = SolarTime::from_ymd_hms(9888, 1, 18, 7, 14, 47);
  let ec = t.get_lunar_hour().get_eight_char();
  for start_year in [9887isize, 9888] {
    let end_year = 9888isize;
    let m = ec.get_month().get_earth_branch().next(-2).get_index() as isize;
    let mut y: isize = ec.get_year().next(-57).get_index() as isize + 1;
    let base_year = start_year - 1;
    if base_year > y { y += 60 * ((base_year - y) as f64 / 60.0).ceil() as isize; }
    println!("start {} y {} m {}", start_year, y, m);
    while y <= end_year {
      let mut term = SolarTerm::from_index(y, 3);
      if m * 2 > 0 { term = term.next(m * 2); }
      let st = term.get_julian_day().get_solar_time();
      println!("  y {} term {} {} at {}", y, term.get_year(), term, st);
      y += 60;
    }
    let _: Option<(SolarDay, SixtyCycle)> = None;
  }
}
