-------------------------- MODULE MC_AlmanacTables --------------------------
(* Mode A for C18: a Lookup step over every New Year's day pillar shows the kitchen-god numbers stay in 1..12
   (1..10 for stem counts) and take every value; the luck split is exhaustive over the 151 spirits. *)
EXTENDS AlmanacTables, TLC
VARIABLE p
Init == p = 0
Next == p' = (p + 1) % 60
Spec == Init /\ [][Next]_p
InvRange == \A i \in DOMAIN KitchenGod(p) : KitchenGod(p)[i] >= 1 /\ KitchenGod(p)[i] <= 12
InvMouse == KitchenGod(p)[1] = 1 <=> p % 12 = 0          \* one rat on a Zi day
InvLuck  == \A i \in 0..(SpiritCount - 1) : SpiritLuck(i) \in {0, 1} /\ (SpiritLuck(i) = 0 <=> i < 60)
InvRow   == RowHeadsOk([i \in 1..61 |-> IF i = 61 THEN -1 ELSE i - 1]) /\ ~RowHeadsOk([i \in 1..60 |-> IF i = 7 THEN 5 ELSE i - 1])
=============================================================================
