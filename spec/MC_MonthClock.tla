--------------------------- MODULE MC_MonthClock ---------------------------
(***************************************************************************)
(* Mode A for C03: the month clock with FREE astronomy.  Each month takes  *)
(* 29 or 30 days and each year any leap month 0..12; the model checks that *)
(* the label arithmetic of LunarCal is coherent for every such choice:     *)
(* labels follow YearLabels, index in year counts up, the year changes     *)
(* exactly after the last label, lunar order is chronological order, and   *)
(* the first days tile.                                                    *)
(***************************************************************************)
EXTENDS LunarCal, TLC

CONSTANTS Years           \* number of years walked

VARIABLES y, m, idx, first, len, lp, prev

vars == <<y, m, idx, first, len, lp, prev>>

Init == /\ y = 0 /\ m = 1 /\ idx = 0 /\ first = 0
        /\ len \in MonthLens /\ lp \in 0..12
        /\ prev = <<-1, 12, 0, -30>>

NextMonth ==
    LET s == LabelSucc(y, m, lp) IN
    /\ s[1] < Years
    /\ y' = s[1] /\ m' = s[2]
    /\ first' = first + len
    /\ len' \in MonthLens
    /\ IF s[1] = y THEN lp' = lp /\ idx' = idx + 1
                   ELSE lp' \in 0..12 /\ idx' = 0
    /\ prev' = <<y, m, idx, first>>

Spec == Init /\ [][NextMonth]_vars

InvLabel   == ValidLabel(m, lp) /\ YearLabels(lp)[idx + 1] = m
InvIndex   == idx = IndexInYear(m, lp) /\ idx < MonthCount(lp)
InvOrder   == prev[1] >= 0 => LunarLess(<<prev[1], prev[2], 1>>, <<y, m, 1>>) /\ prev[4] < first
InvTile    == prev[1] >= 0 => first - prev[4] \in MonthLens
InvLoose   == prev[1] >= 0 => LabelSuccLoose(prev[1], prev[2], y, m)
InvNewYear == (prev[1] >= 0 /\ prev[1] # y) => (Abs(prev[2]) = 12 /\ m = 1 /\ idx = 0)
=============================================================================
