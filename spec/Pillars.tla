------------------------------- MODULE Pillars -------------------------------
(***************************************************************************)
(* Year and month pillars (C08).  The sexagenary year turns at Lichun      *)
(* (term index 3), the month pillar advances at each of the twelve Jie     *)
(* (odd term indices; the Yin month begins at Lichun), and the month stem  *)
(* follows from the year stem by the Five-Tigers rule.  A pillar is an     *)
(* index 0..59 with stem = p % 10 and branch = p % 12.                     *)
(***************************************************************************)
EXTENDS Integers

Stem(p) == p % 10
Branch(p) == p % 12

(* the pillar with a given stem and branch (they must have the same parity) *)
PillarOfSB(s, b) == CHOOSE p \in 0..59 : p % 10 = s /\ p % 12 = b

(* sexagenary year of the pillar-year Y (AD 4 is a Jiazi year) *)
YearPillar(Y) == (Y - 4) % 60

(* ordinal 0..11 of the Jie month governed by term index ti (0..23): the Jie on or before the term;
   Lichun (3) -> 0 (Yin), ..., Daxue (23) -> 10 (Zi), Xiaohan (1) -> 11 (Chou) *)
JieOf(ti) == IF ti % 2 = 1 THEN ti ELSE (ti + 23) % 24
JieOrdinal(ti) == ((JieOf(ti) - 3 + 24) % 24) \div 2

(* Five Tigers: stem of the Yin month from the year stem *)
YinStem(ys) == (2 * (ys % 5) + 2) % 10

MonthPillar(yp, k) == PillarOfSB((YinStem(Stem(yp)) + k) % 10, (2 + k) % 12)

(* the legal (year pillar, month pillar) pairs: 60 x 12 *)
Legal(yp, mp) == \E k \in 0..11 : mp = MonthPillar(yp, k)

(* pillar-year of a day/instant of civil year y: y from Lichun on, y - 1 before *)
PillarYear(y, onOrAfterLichun) == IF onOrAfterLichun THEN y ELSE y - 1

(* NextJie: what one Jie does to the pair *)
NextJie(yp, mp, k) ==    \* k = ordinal of the month that ENDS
    IF k = 11 THEN <<(yp + 1) % 60, (mp + 1) % 60>>       \* Chou -> Yin at Lichun: the year turns too
    ELSE <<yp, (mp + 1) % 60>>
=============================================================================
