------------------------------ MODULE Trace_C19 ------------------------------
(***************************************************************************)
(* C19 — stem and branch attributes match the classical correspondence     *)
(* rules.  Every `tab` event is one attribute enumerated over its complete *)
(* domain by the harness (c19.rs); Want(t) is the same table generated     *)
(* from the first-principles rules of Cycles.tla.  Relational attributes   *)
(* are also checked to be involutions / inverse pairs on the LOGGED table. *)
(***************************************************************************)
EXTENDS Cycles, TraceIO, TLC

VARIABLES l, nv, nt

T1(n, F(_)) == [i \in 1..n |-> F(i - 1)]
T2(rows, cols, F(_, _)) == [i \in 1..(rows * cols) |-> F((i - 1) \div cols, (i - 1) % cols)]

HiddenList(i) ==      \* i-th entry of the flattened (stem, type) list: 6 numbers per branch
  LET b == (i - 1) \div 6
      k == ((i - 1) % 6) \div 2          \* 0, 1, 2: position in the list
      isType == (i - 1) % 2 = 1
      h == Hidden[b + 1]
      present == <<h[1], h[2], h[3]>>
      (* the list skips absent entries: main, then middle if any, then residual if any *)
      order == IF h[2] = -1 /\ h[3] = -1 THEN << <<h[1], 2>> >>
               ELSE IF h[3] = -1 THEN << <<h[1], 2>>, <<h[2], 1>> >>
               ELSE IF h[2] = -1 THEN << <<h[1], 2>>, <<h[3], 0>> >>
               ELSE << <<h[1], 2>>, <<h[2], 1>>, <<h[3], 0>> >>
  IN IF k + 1 <= Len(order) THEN order[k + 1][IF isType THEN 2 ELSE 1] ELSE -1

DayOfLeapYear == \* <<m, d>> of the i-th day of a leap year
  LET dim == <<31, 29, 31, 30, 31, 30, 31, 31, 30, 31, 30, 31>>
      RECURSIVE Go(_, _)
      Go(i, m) == IF i <= dim[m] THEN <<m, i>> ELSE Go(i - dim[m], m + 1)
  IN [i \in 1..366 |-> Go(i, 1)]

ZoneDirection == <<E, N, W, S>>           \* east, north, west, south quadrants
OwnSign(k) ==
  LET ys == k \div 144  mb == (k \div 12) % 12  hb == k % 12
      b == OwnSignBranch(mb, hb)
  IN PillarOf(TigerStem(ys % 10, b), b)
(* body sign: month number (Yin month = 1) plus hour number (Zi hour = 1), counted from Yin *)
BodySign(k) ==
  LET ys == k \div 144  mb == (k \div 12) % 12  hb == k % 12
      b == Mod(mb + hb + 1, 12)
  IN PillarOf(TigerStem(ys % 10, b), b)

Want(t) ==
  CASE t = "stem_element"        -> T1(10, StemElement)
    [] t = "stem_polarity"       -> T1(10, StemPolarity)
    [] t = "stem_direction"      -> T1(10, StemDirection)
    [] t = "stem_joy"            -> T1(10, JoyDirection)
    [] t = "stem_yang_noble"     -> YangNoble
    [] t = "stem_yin_noble"      -> T1(10, YinNoble)
    [] t = "stem_wealth"         -> T1(10, WealthDirection)
    [] t = "stem_mascot"         -> MascotDirection
    [] t = "stem_combine"        -> T1(10, StemCombine)
    [] t = "stem_combine_element" -> T2(10, 10, LAMBDA a, b : IF b = StemCombine(a) THEN StemCombineElement(a) ELSE -1)
    [] t = "stem_terrain"        -> T2(10, 12, Terrain)
    [] t = "stem_ten_star"       -> T2(10, 10, TenStar)
    [] t = "branch_element"      -> BranchElement
    [] t = "branch_polarity"     -> T1(12, BranchPolarity)
    [] t = "branch_direction"    -> T1(12, BranchDirection)
    [] t = "branch_hidden_main"  -> [i \in 1..12 |-> Hidden[i][1]]
    [] t = "branch_hidden_middle" -> [i \in 1..12 |-> Hidden[i][2]]
    [] t = "branch_hidden_residual" -> [i \in 1..12 |-> Hidden[i][3]]
    [] t = "branch_hidden_list"  -> [i \in 1..72 |-> HiddenList(i)]
    [] t = "branch_zodiac"       -> T1(12, LAMBDA b : b)
    [] t = "branch_opposite"     -> T1(12, BranchOpposite)
    [] t = "branch_ominous"      -> T1(12, BranchOminous)
    [] t = "branch_combine"      -> T1(12, BranchCombine)
    [] t = "branch_combine_element" -> T2(12, 12, LAMBDA a, b : IF b = BranchCombine(a) THEN BranchCombineElement[a + 1] ELSE -1)
    [] t = "branch_harm"         -> T1(12, BranchHarm)
    [] t = "pillar_stem"         -> T1(60, PStem)
    [] t = "pillar_branch"       -> T1(60, PBranch)
    [] t = "pillar_sound"        -> T1(60, NayinIndex)
    [] t = "pillar_sound_element" -> T1(60, NayinElement)
    [] t = "pillar_xun"          -> T1(60, XunOf)
    [] t = "pillar_xun_head"     -> T1(60, LAMBDA p : 10 * XunOf(p))
    [] t = "pillar_void1"        -> T1(60, LAMBDA p : VoidBranches(p)[1])
    [] t = "pillar_void2"        -> T1(60, LAMBDA p : VoidBranches(p)[2])
    [] t = "pillar_void_count"   -> T1(60, LAMBDA p : 2)
    [] t = "fetus_stem"          -> T1(60, LAMBDA p : FetusStem(PStem(p)))
    [] t = "fetus_branch"        -> T1(60, LAMBDA p : FetusBranch(PBranch(p)))
    [] t = "fetus_side"          -> T1(60, FetusSide)
    [] t = "fetus_direction"     -> T1(60, FetusDirection)
    [] t \in {"fetus_where_day", "fetus_where_lunar", "fetus_where_late"} -> T1(60, LAMBDA p : 10 * FetusSide(p) + FetusDirection(p))
    [] t = "pengzu_stem"         -> T1(60, PStem)
    [] t = "pengzu_branch"       -> T1(60, PBranch)
    [] t = "pengzu_stem_char"    -> T1(10, LAMBDA s : 1)
    [] t = "pengzu_branch_char"  -> T1(12, LAMBDA b : 1)
    [] t = "element_reinforce"   -> T1(5, Generates)
    [] t = "element_restrain"    -> T1(5, Overcomes)
    [] t = "element_reinforced"  -> T1(5, GeneratedBy)
    [] t = "element_restrained"  -> T1(5, OvercomeBy)
    [] t = "element_direction"   -> ElementDirection
    [] t = "direction_element"   -> DirectionElement
    [] t = "zodiac_sign"         -> [i \in 1..366 |-> Sign(DayOfLeapYear[i][1], DayOfLeapYear[i][2])]
    [] t = "fetus_month"         -> T1(12, LAMBDA m : m)
    [] t = "fetus_month_leap"    -> <<-1>>
    [] t = "fetus_month_cycle"   -> T1(12, LAMBDA m : m)
    [] t = "mansion_luminary"    -> T1(28, MansionLuminary)
    [] t = "mansion_field_direction" -> T1(28, MansionField)
    [] t = "mansion_field"       -> T1(28, MansionField)        \* a field's index is its direction index
    [] t = "mansion_zone"        -> T1(28, MansionZone)
    [] t = "mansion_beast"       -> T1(28, MansionZone)         \* azure dragon east, black tortoise north, white tiger west, vermilion bird south
    [] t = "mansion_zone_direction" -> T1(28, LAMBDA i : ZoneDirection[MansionZone(i) + 1])
    [] t = "mansion_animal"      -> T1(28, LAMBDA i : i)
    [] t = "mansion_luck"        -> MansionLuck
    [] t = "land_direction"      -> T1(9, LAMBDA i : i)
    [] t = "zone_direction"      -> ZoneDirection
    [] t = "ninestar_element"    -> NineStarElement
    [] t = "ninestar_direction"  -> T1(9, NineStarDirection)
    [] t = "ninestar_dipper"     -> T1(9, LAMBDA i : i)
    [] t = "ninestar_colour"     -> NineStarColour
    [] t = "twelve_ecliptic"     -> TwelveStarBlack
    [] t = "ecliptic_luck"       -> <<0, 1>>
    [] t = "minor_ren_luck"      -> T1(6, MinorRenLuck)
    [] t = "minor_ren_element"   -> MinorRenElement
    [] t = "twenty_sixty"        -> T1(9, LAMBDA i : i \div 3)
    [] t = "phenology_three"     -> T1(72, LAMBDA i : i % 3)
    [] t = "fetal_origin"        -> T1(60, FetalOrigin)
    [] t = "fetal_breath"        -> T1(60, FetalBreath)
    [] t = "own_sign"            -> T1(1440, OwnSign)
    [] t = "body_sign"           -> T1(1440, BodySign)
    [] OTHER                     -> <<>>

KnownTables == {"stem_element", "stem_polarity", "stem_direction", "stem_joy", "stem_yang_noble", "stem_yin_noble", "stem_wealth", "stem_mascot",
  "stem_combine", "stem_combine_element", "stem_terrain", "stem_ten_star", "branch_element", "branch_polarity", "branch_direction",
  "branch_hidden_main", "branch_hidden_middle", "branch_hidden_residual", "branch_hidden_list", "branch_zodiac", "branch_opposite", "branch_ominous",
  "branch_combine", "branch_combine_element", "branch_harm", "pillar_stem", "pillar_branch", "pillar_sound", "pillar_sound_element", "pillar_xun",
  "pillar_xun_head", "pillar_void1", "pillar_void2", "pillar_void_count", "fetus_stem", "fetus_branch", "fetus_side", "fetus_direction", "fetus_where_day", "fetus_where_lunar", "fetus_where_late", "pengzu_stem",
  "pengzu_branch", "pengzu_stem_char", "pengzu_branch_char", "element_reinforce", "element_restrain", "element_reinforced", "element_restrained",
  "element_direction", "direction_element", "zodiac_sign", "fetus_month", "fetus_month_leap", "fetus_month_cycle", "mansion_luminary",
  "mansion_field_direction", "mansion_field", "mansion_zone", "mansion_beast", "mansion_zone_direction", "mansion_animal", "mansion_luck",
  "land_direction", "zone_direction", "ninestar_element", "ninestar_direction", "ninestar_dipper", "ninestar_colour", "twelve_ecliptic", "ecliptic_luck",
  "minor_ren_luck", "minor_ren_element", "twenty_sixty", "phenology_three", "fetal_origin", "fetal_breath", "own_sign", "body_sign"}

(* involutions / inverse pairs on the logged table itself (0-based values in a 1-based sequence) *)
Involution(v) == \A i \in DOMAIN v : v[i] + 1 \in DOMAIN v /\ v[v[i] + 1] = i - 1
NoFixpoint(v) == \A i \in DOMAIN v : v[i] # i - 1
Relational == {"stem_combine", "branch_opposite", "branch_combine", "branch_harm"}

FirstDiff(v, w) ==
  IF Len(v) # Len(w) THEN -1
  ELSE LET bad == {i \in DOMAIN v : v[i] # w[i]} IN IF bad = {} THEN -2 ELSE (CHOOSE i \in bad : \A k \in bad : i <= k) - 1

TabClauses(e) ==
  [ known      |-> e.t \in KnownTables,
    rule       |-> e.t \in KnownTables => e.v = Want(e.t),
    involution |-> e.t \in Relational => (Involution(e.v) /\ NoFixpoint(e.v))
  ]

NM == INSTANCE Names
(* the printed name of the day foetus spirit of pillar p: place (stem part + branch part with the traditional
   contractions), inside / outside, direction — composed by Names.tla from this module's side and direction tables *)
FetusNameClauses(e) ==
  [ name |-> e.p \in 0..59 /\ e.n = NM!FetusDayName(FetusStem(PStem(e.p)), FetusBranch(PBranch(e.p)), FetusSide(e.p), FetusDirection(e.p)) ]

Clauses(i) == IF Rec[i].k = "tab" THEN TabClauses(Rec[i]) ELSE IF Rec[i].k = "fdn" THEN FetusNameClauses(Rec[i]) ELSE [kind |-> FALSE]
Failed(i) == LET c == Clauses(i) IN {n \in DOMAIN c : ~c[n]}
(* w: 0 = cold process, 1 / 2 = fresh process in which every name of every cycle was first looked up in every named
   type (forward / reverse order): the tables must be the same — a lookup leaves no trace in later answers *)
Key(i) == LET e == Rec[i] IN IF e.k = "fdn" THEN [k |-> "fdn", p |-> e.p, w |-> e.w] ELSE [k |-> "tab", t |-> e.t, w |-> e.w, at |-> IF e.t \in KnownTables THEN FirstDiff(e.v, Want(e.t)) ELSE -3]
Nontrivial(i) == TRUE

INSTANCE TraceRun WITH Prop <- "C19", NLines <- NRec
=============================================================================
