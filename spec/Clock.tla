-------------------------------- MODULE Clock --------------------------------
(***************************************************************************)
(* Clock arithmetic on the civil time line (C12).  An instant is a pair    *)
(* <<day number, second of day>>; the time line is the day line of Civil   *)
(* with 86400 seconds per day (no leap seconds, and the 1582 gap is a gap  *)
(* in LABELS only: day numbers are contiguous).  A Julian date with a      *)
(* fraction is <<day number, millisecond of day>> counted from midnight.   *)
(***************************************************************************)
EXTENDS Integers

DaySeconds == 86400

ValidInstant(t) == t[2] >= 0 /\ t[2] < DaySeconds

(* the instant n seconds after t (floor division carries into earlier days for negative totals) *)
Add(t, n) == LET total == t[2] + n IN <<t[1] + (total \div DaySeconds), total % DaySeconds>>

(* distance from a to b as <<whole days, seconds>> with 0 <= seconds < 86400: b = a + days*86400 + seconds *)
Diff(a, b) == LET ds == b[2] - a[2] IN <<(b[1] - a[1]) + (ds \div DaySeconds), ds % DaySeconds>>

Less(a, b) == a[1] < b[1] \/ (a[1] = b[1] /\ a[2] < b[2])

(* nearest second of a Julian date <<j, ms>>; a tie is not decided here *)
RoundDown(jm) == <<jm[1], jm[2] \div 1000>>
RoundUp(jm) == Add(<<jm[1], jm[2] \div 1000>>, 1)
Nearest(jm) == IF jm[2] % 1000 < 500 THEN RoundDown(jm) ELSE RoundUp(jm)
NearTie(jm) == LET f == jm[2] % 1000 IN f >= 499 /\ f <= 501

(* |t - jm| in milliseconds; saturates at 2*10^9 beyond 20 days (TLC's integers are 32-bit: an answer that is wrong by
   months must come out as a failed clause, not as an arithmetic overflow of the tool) *)
AbsMs(t, jm) == LET dd == t[1] - jm[1] IN
                IF dd > 20 \/ dd < -20 THEN 2000000000
                ELSE LET d == dd * 86400000 + t[2] * 1000 - jm[2] IN IF d < 0 THEN -d ELSE d
=============================================================================
