SPECIFICATION Spec
CONSTANTS
  FromJ = 2250000
  ToJ = 2470000
INVARIANTS InvValid InvJdn InvDateOf InvPred InvDoy InvDim InvGap InvOrder InvAnchors Done
CHECK_DEADLOCK FALSE
