SPECIFICATION Spec
INVARIANT Inv
CHECK_DEADLOCK FALSE
