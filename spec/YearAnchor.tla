----------------------------- MODULE YearAnchor -----------------------------
(***************************************************************************)
(* C02 / C03 / C05 / C20 — how LunarMonth::new finds the first day of a    *)
(* lunar month: the ANCHORING of a lunar year on its winter solstice, as a *)
(* transition system with one action per statement group of the code:      *)
(*                                                                         *)
(*   dz   = cursory DAY of the winter solstice before the year             *)
(*   w    = calc_shuo(dz)              new-moon day "nearest" dz   (Shuo1)  *)
(*   if w > dz { w -= 29.53 }          last new moon on or before  (Adjust) *)
(*   w   += 29.5306 * (offset + index) aim at the wanted lunation  (Aim)    *)
(*   first = calc_shuo(w)              its new-moon day            (Shuo2)  *)
(*                                                                         *)
(* calc_shuo(x) is the library's day-level new-moon routine: the lunation  *)
(* whose MEAN conjunction lies in (x + 14 - L, x + 14], answered with the  *)
(* civil day of its TRUE conjunction.  Time is counted in 1/U days; a day  *)
(* number d names the civil day [d*U - U/2, d*U + U/2) (day numbers are    *)
(* noon-based, as Julian day numbers are).  True conjunctions differ from  *)
(* the mean ones by a perturbation drawn from Pert, independently for      *)
(* three consecutive lunations.                                            *)
(*                                                                         *)
(* Property (AnchorLaw): the month starts on the day of conjunction        *)
(* number  kstar + n,  where kstar is the last conjunction whose civil DAY *)
(* is on or before the solstice's civil DAY (the lunation that contains    *)
(* the solstice, month 11) and n = offset + index — for every time of day  *)
(* of the solstice, every phase of the Moon and every perturbation.        *)
(* Consequence (checked on the code by Trace_C05 `consecutive`, Trace_C03  *)
(* contiguity): consecutive month indices start at consecutive             *)
(* conjunctions, none skipped, none used twice.                            *)
(*                                                                         *)
(* Mode selects the comparison of the Adjust step:                         *)
(*   "day"      w > dz on day numbers                (the shipped code)    *)
(*   "instant"  w > the solstice INSTANT             (seed C05-w7-2)       *)
(*   "geq"      w >= dz                              (seed C20-w7-3)       *)
(* The last two break AnchorLaw exactly when solstice and conjunction fall *)
(* on one civil day (MC_YearAnchor_instant / _geq, expected to fail).      *)
(***************************************************************************)
EXTENDS Integers

CONSTANTS U,        \* time units per day (even)
          L,        \* lunation length in units (the code's 29.53 / 29.5306 days)
          Pert,     \* perturbations true - mean conjunction, in units
          Steps,    \* values of n = offset + index
          Mode

VARIABLES a,        \* phase: mean conjunction k is at a + k*L
          p,        \* perturbation pattern, lunation k is moved by p[k % 3]
          s,        \* the solstice instant
          n,        \* offset + index
          w,        \* the code's w, in units
          first,    \* the answer: a day number
          pc

vars == <<a, p, s, n, w, first, pc>>

DayOf(t) == (t + U \div 2) \div U              \* civil day of an instant
NoonOf(d) == d * U                              \* a day number used as an instant, as the code does
NM(k) == a + k * L + p[k % 3]                   \* true conjunction k
ShuoIndex(x) == (x + 14 * U - a) \div L         \* lunation picked by calc_shuo for the instant x
CalcShuo(x) == DayOf(NM(ShuoIndex(x)))

Dz == DayOf(s)

Init ==
  /\ a \in 0..(U - 1)
  /\ p \in [0..2 -> Pert]
  /\ s \in (3 * L)..(4 * L - 1)                 \* every position of the solstice inside one lunation, every time of day
  /\ n \in Steps
  /\ w = 0 /\ first = 0
  /\ pc = "shuo1"

Shuo1 ==
  /\ pc = "shuo1"
  /\ w' = NoonOf(CalcShuo(NoonOf(Dz)))
  /\ pc' = "adjust"
  /\ UNCHANGED <<a, p, s, n, first>>

After ==
  CASE Mode = "day"     -> DayOf(w) > Dz
    [] Mode = "instant" -> w > s
    [] Mode = "geq"     -> DayOf(w) >= Dz

Adjust ==
  /\ pc = "adjust"
  /\ w' = IF After THEN w - L ELSE w
  /\ pc' = "aim"
  /\ UNCHANGED <<a, p, s, n, first>>

Aim ==
  /\ pc = "aim"
  /\ w' = w + L * n
  /\ pc' = "shuo2"
  /\ UNCHANGED <<a, p, s, n, first>>

Shuo2 ==
  /\ pc = "shuo2"
  /\ first' = CalcShuo(w)
  /\ pc' = "done"
  /\ UNCHANGED <<a, p, s, n, w>>

Next == Shuo1 \/ Adjust \/ Aim \/ Shuo2

Spec == Init /\ [][Next]_vars

-----------------------------------------------------------------------------
(* the last conjunction whose civil day is on or before the solstice's civil day *)
KStar == CHOOSE k \in 0..6 : DayOf(NM(k)) <= Dz /\ DayOf(NM(k + 1)) > Dz

AnchorLaw == pc = "done" => first = DayOf(NM(KStar + n))

(* after Adjust, w is within three days of conjunction KStar (rounding to a day, two perturbations): the aim of Shuo2, which tolerates 14 days, cannot slip to a neighbour *)
AnchorNear == pc = "aim" => (w - NM(KStar) < 3 * U /\ NM(KStar) - w < 3 * U)
=============================================================================
