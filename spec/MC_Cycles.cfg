SPECIFICATION Spec
INVARIANTS InvParity InvStem InvTenStar InvTerrain InvBranch InvElement InvNayin InvVoid InvFetus InvSign
CHECK_DEADLOCK FALSE
