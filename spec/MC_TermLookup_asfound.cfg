SPECIFICATION Spec
CONSTANTS
  StartOffset = 0
  MinPhase <- MCMinPhase
  MaxPhase = 3
INVARIANTS Latest Bound
CHECK_DEADLOCK FALSE
