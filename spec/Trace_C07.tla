------------------------------ MODULE Trace_C07 ------------------------------
(***************************************************************************)
(* C07 — day pillar and weekday advance one step per civil day from fixed  *)
(* anchors.  Each `d` line is one civil day of a walk (harness c07.rs):    *)
(* weekday by three routes (civil date, Julian day, lunar date), pillar by *)
(* four routes (lunar date, sexagenary-day view of the civil date, a       *)
(* freshly constructed lunar date, sexagenary-day view of the lunar date). *)
(* Per line: the anchored invariants of DayClock; per pair: its Tick.      *)
(***************************************************************************)
EXTENDS DayClock, TraceIO, TLC

VARIABLES l, nv, nt

HasPrev(i) == Rec[i].s = 0 /\ i > 1 /\ Rec[i - 1].k = "d"

DayClauses(i) ==
  LET e == Rec[i]
      p == Rec[i - 1]
  IN
  [ civil   |-> Valid(e.y, e.m, e.d) /\ e.j = JDN(e.y, e.m, e.d),
    weekday |-> e.w = Weekday(e.j),
    routesW |-> e.w2 = e.w /\ e.w3 = e.w /\ e.w5 \in {-2, e.w},
    anchor  |-> e.p = PillarOf(e.j),
    (* p5, p6, w5: through the previous day's lunar day stepped by one (-2: first day of a segment) *)
    routesP |-> e.p2 = e.p /\ e.p3 = e.p /\ e.p4 = e.p /\ e.p5 \in {-2, e.p} /\ e.p6 \in {-2, e.p},
    stem    |-> e.p >= 0 => (e.ps = StemOf(e.p) /\ e.pb = BranchOf(e.p)),
    tickW   |-> HasPrev(i) => (TickJdn(p, e) => TickWeek(p, e)),
    tickP   |-> HasPrev(i) => (TickJdn(p, e) => TickPillar(p, e))
  ]

Clauses(i) == IF Rec[i].k = "d" THEN DayClauses(i) ELSE [walk |-> FALSE]
Failed(i) == LET c == Clauses(i) IN {n \in DOMAIN c : ~c[n]}
Key(i) == LET e == Rec[i] IN IF e.k = "d" THEN [k |-> "d", y |-> e.y, m |-> e.m, d |-> e.d, n |-> e.y * 10000 + e.m * 100 + e.d] ELSE [k |-> e.k, at |-> e.at]

(* non-trivial: lunar month starts, civil month/year ends, the 1582 seam, cycle wrap-arounds *)
Nontrivial(i) == LET e == Rec[i] IN
  IF e.k = "d" THEN e.ld = 1 \/ e.d = 1 \/ (e.y = 1582 /\ e.m = 10) \/ e.p = 0 \/ e.w = 0 ELSE TRUE

INSTANCE TraceRun WITH Prop <- "C07", NLines <- NRec
=============================================================================
