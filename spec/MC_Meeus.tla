------------------------------ MODULE MC_Meeus ------------------------------
(* every civil day FromJ..ToJ by Succ (Civil.tla), with the shipped arithmetic (Meeus.tla) checked against the
   calendar's own day number in both directions *)
EXTENDS Civil, TLC

CONSTANTS FromJ, ToJ, Slip

VARIABLES date, j

vars == <<date, j>>

M == INSTANCE Meeus

Init == j = FromJ /\ date = DateOf(FromJ)

Tick == /\ j < ToJ
        /\ date' = Succ(date[1], date[2], date[3])
        /\ j' = j + 1

Spec == Init /\ [][Tick]_vars

Forward  == M!ToJdn(date[1], date[2], date[3], Slip) = j
Backward == M!FromJdn(j) = date
Agree    == JDN(date[1], date[2], date[3]) = j
Done     == j = ToJ => date = DateOf(ToJ)
=============================================================================
