----------------------------- MODULE MC_Stepping -----------------------------
(***************************************************************************)
(* Mode A for C11: the modular stepping law for every cycle size present   *)
(* in the library and all |n| <= 2*size + 3 (complete), and the ordinal    *)
(* <-> (year, index) carries of the year-scaled units in both directions   *)
(* across year 0.                                                          *)
(***************************************************************************)
EXTENDS Stepping, TLC

Sizes == {2, 3, 4, 5, 6, 7, 9, 10, 12, 28, 30, 60, 72, 141, 151}

VARIABLES size, i

vars == <<size, i>>

Init == size \in Sizes /\ i = 0
Next == i + 1 < size /\ i' = i + 1 /\ size' = size
Spec == Init /\ [][Next]_vars

Ns == -(2 * size + 3)..(2 * size + 3)
InvRange   == \A n \in Ns : CycStep(i, n, size) \in 0..(size - 1)
InvZero    == CycStep(i, 0, size) = i
InvInverse == \A n \in Ns : CycStep(CycStep(i, n, size), -n, size) = i
InvCompose == \A a \in {-size - 1, -3, 0, 1, size, 2 * size + 3} : \A b \in {-size, -1, 2, size + 1} :
                 CycStep(CycStep(i, a, size), b, size) = CycStep(i, a + b, size)
InvPeriod  == \A k \in -2..2 : CycStep(i, k * size, size) = i
(* year carries with floor division: ordinal o of a unit with k parts per year *)
InvCarry   == \A k \in {2, 4, 12, 24} : \A o \in -30..30 : k * (o \div k) + (o % k) = o /\ (o % k) \in 0..(k - 1)
=============================================================================
