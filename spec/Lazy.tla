-------------------------------- MODULE Lazy --------------------------------
(***************************************************************************)
(* C10 (second piece of mutable state) — the per-value lazy memos of        *)
(* LunarDay and LunarHour as a transition system.                          *)
(*                                                                         *)
(* A value has its own fields (abstractly: its POSITION on the time line)  *)
(* and two RefCell memo cells:                                             *)
(*    m1   LunarDay.solar_day        / LunarHour.solar_time                *)
(*    m2   LunarDay.sixty_cycle_day  / LunarHour.sixty_cycle_hour          *)
(* m2 is computed FROM view 1 (get_sixty_cycle_day() calls                 *)
(* get_solar_day().get_sixty_cycle_day()), so a stale m1 propagates.       *)
(*                                                                         *)
(* One action per public operation that touches the cells:                 *)
(*    Field   a plain getter of the value's own fields (no memo)           *)
(*    View1   get_solar_day / get_solar_time:   fills m1                   *)
(*    View2   get_sixty_cycle_day / _hour:      fills m1 and m2            *)
(*    Via     a getter that clones the value and asks the clone            *)
(*            (LunarHour::get_eight_char): sees the cells, fills nothing   *)
(*    Clone   x.clone(): the cells travel with the copy (legitimately:     *)
(*            same position)                                               *)
(*    Step    x.next(d): a NEW value at position + d                       *)
(*                                                                         *)
(* StepMode describes how Step builds the new value, so that the shipped   *)
(* code and the realistic ways of getting it wrong are instances of one    *)
(* specification:                                                          *)
(*    "fresh"    through the constructor: empty cells          (shipped)   *)
(*    "copy"     struct update `Self { day, ..self.clone() }`: both cells  *)
(*               travel to the new position                                *)
(*    "partial"  clone, set the field, clear m1, forget m2                 *)
(*                                                                         *)
(* The abstract truth: every view of a value is a function of its position *)
(* (here: the position itself).  Property (C10): every answer equals that  *)
(* function of the asked value's position, whatever was asked before.      *)
(***************************************************************************)
EXTENDS Integers, Sequences, TLC

CONSTANTS Regs,        \* register names (variables of the client program)
          Deltas,      \* step sizes used by Step
          MaxOps,      \* length of a client program
          StepMode

ASSUME StepMode \in {"fresh", "copy", "partial"}

None == -1000000

Value(p, a, b) == [pos |-> p, m1 |-> a, m2 |-> b]
Fresh(p) == Value(p, None, None)

(* ---- the operations as pure functions on one value (shared with the trace spec) ---- *)
V1(v) == IF v.m1 = None THEN v.pos ELSE v.m1                 \* what view 1 answers
V2(v) == IF v.m2 = None THEN V1(v) ELSE v.m2                 \* what view 2 answers (computed from view 1)
AfterView1(v) == [v EXCEPT !.m1 = V1(v)]
AfterView2(v) == [v EXCEPT !.m1 = V1(v), !.m2 = V2(v)]
Stepped(v, d) ==
    CASE StepMode = "fresh"   -> Fresh(v.pos + d)
      [] StepMode = "copy"    -> Value(v.pos + d, v.m1, v.m2)
      [] StepMode = "partial" -> Value(v.pos + d, None, v.m2)

(* op codes of a client program: <<code, r, q, d>> *)
OpField == 0   OpView1 == 1   OpView2 == 2   OpVia == 3   OpClone == 4   OpStep == 5
IsGet(c) == c \in {OpField, OpView1, OpView2, OpVia}

(* registers after one op; answer of a get op *)
RegsAfter(rg, op) ==
    LET c == op[1]  r == op[2]  q == op[3]  d == op[4] IN
    CASE c = OpView1 -> [rg EXCEPT ![r] = AfterView1(rg[r])]
      [] c = OpView2 -> [rg EXCEPT ![r] = AfterView2(rg[r])]
      [] c = OpClone -> [rg EXCEPT ![q] = rg[r]]
      [] c = OpStep  -> [rg EXCEPT ![q] = Stepped(rg[r], d)]
      [] OTHER       -> rg
Answer(rg, op) ==
    LET c == op[1]  r == op[2] IN
    CASE c = OpField -> rg[r].pos
      [] c = OpView1 -> V1(rg[r])
      [] c = OpView2 -> V2(rg[r])
      [] c = OpVia   -> V2(rg[r])
      [] OTHER       -> None
Truth(rg, op) == rg[op[2]].pos          \* what a freshly built value at that position answers

VARIABLES reg, nops, ans, want
vars == <<reg, nops, ans, want>>

Init == /\ reg = [r \in Regs |-> Fresh(0)]
        /\ nops = 0 /\ ans = 0 /\ want = 0

Do(op) == /\ nops < MaxOps
          /\ reg' = RegsAfter(reg, op)
          /\ nops' = nops + 1
          /\ IF IsGet(op[1]) THEN ans' = Answer(reg, op) /\ want' = Truth(reg, op)
                             ELSE UNCHANGED <<ans, want>>

Field(r)     == Do(<<OpField, r, r, 0>>)
View1(r)     == Do(<<OpView1, r, r, 0>>)
View2(r)     == Do(<<OpView2, r, r, 0>>)
Via(r)       == Do(<<OpVia, r, r, 0>>)
Clone(r, q)  == r # q /\ Do(<<OpClone, r, q, 0>>)
Step(r, q, d) == Do(<<OpStep, r, q, d>>)

Next == \E r \in Regs :
           \/ Field(r) \/ View1(r) \/ View2(r) \/ Via(r)
           \/ \E q \in Regs : Clone(r, q) \/ \E d \in Deltas : Step(r, q, d)

Spec == Init /\ [][Next]_vars

-----------------------------------------------------------------------------
(* every answer is the function of the asked value's position *)
AnswerRight == ans = want

(* a filled cell holds the view of the value's own position *)
MemoSound == \A r \in Regs : reg[r].m1 \in {None, reg[r].pos} /\ reg[r].m2 \in {None, reg[r].pos}

(* view 2 is never filled without view 1 *)
FillOrder == \A r \in Regs : reg[r].m2 # None => reg[r].m1 # None
=============================================================================
