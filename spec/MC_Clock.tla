------------------------------ MODULE MC_Clock ------------------------------
(***************************************************************************)
(* Mode A for C12: a clock stepping by arbitrary n around two midnights.   *)
(* From every state <<day, second>> of a three-day window the clock may    *)
(* jump by any n of a set that carries through second, minute, hour and    *)
(* day in both directions.  Invariants: Add is a group action (undo, sum), *)
(* Diff inverts Add, order = sign of Diff, and rounding a Julian date is   *)
(* within half a second and carries into the next day at 23:59:59.5.       *)
(***************************************************************************)
EXTENDS Clock, TLC

Steps == {-172801, -86401, -86400, -3661, -61, -60, -1, 0, 1, 59, 60, 3599, 3600, 86399, 86400, 90000}
Seconds == {0, 1, 59, 60, 3599, 3600, 43200, 86339, 86399}

CONSTANT Depth

VARIABLES t, prev, n, c

vars == <<t, prev, n, c>>

Init == t \in {<<100, s>> : s \in Seconds} /\ prev = t /\ n = 0 /\ c = 0
Next == \E k \in Steps :
          /\ c < Depth
          /\ c' = c + 1
          /\ t' = Add(t, k) /\ prev' = t /\ n' = k
Spec == Init /\ [][Next]_vars

InvValid  == ValidInstant(t)
InvUndo   == Add(t, -n) = prev
InvDiff   == Diff(prev, t)[1] * DaySeconds + Diff(prev, t)[2] = n
InvOrder  == (Less(prev, t) <=> n > 0) /\ (Less(t, prev) <=> n < 0)
InvSum    == \A k \in {-61, 1, 86399} : Add(Add(prev, n), k) = Add(prev, n + k)
InvRound  == \A ms \in {0, 250, 499, 500, 501, 999} :
                LET jm == <<t[1], t[2] * 1000 + ms>> IN
                /\ AbsMs(Nearest(jm), jm) <= 500
                /\ ValidInstant(Nearest(jm))
                /\ (t[2] = 86399 /\ ms >= 500) => Nearest(jm) = <<t[1] + 1, 0>>
=============================================================================
