SPECIFICATION Spec
CONSTANTS
  StartOffset = 1
  MinPhase <- MCMinPhase
  MaxPhase = 3
INVARIANTS Latest Bound
PROPERTY Termination
CHECK_DEADLOCK FALSE
