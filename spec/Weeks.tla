-------------------------------- MODULE Weeks --------------------------------
(***************************************************************************)
(* Weeks of a month (C14), for civil and lunar months alike.  A month is    *)
(* given by the day number F of its first day and the number L of days     *)
(* that exist in it (21 for October 1582); `start` is the weekday 0..6 a    *)
(* week begins on.  Everything is a function of (F, L, start): positions   *)
(* are day NUMBERS, never day-of-month labels.                             *)
(***************************************************************************)
EXTENDS Integers, Sequences

Weekday(j) == (j + 1) % 7

(* days of the first week that belong to the previous month *)
Offset(F, start) == (Weekday(F) - start) % 7

WeekCount(F, L, start) == (Offset(F, start) + L + 6) \div 7

(* first day of week i (0-based) *)
WeekFirstDay(F, start, i) == F - Offset(F, start) + 7 * i

(* index of the week that contains day number j *)
WeekIndexOf(F, start, j) == (j - (F - Offset(F, start))) \div 7

(* first day of the week that contains day j, whatever month one looks from *)
WeekStartOf(j, start) == j - ((Weekday(j) - start) % 7)

(* stepping by n weeks moves the first day by 7n; the index in the year counts from the week containing January 1
   (for a lunar week: from the first day of the lunar year) *)
NextWeekFirstDay(first, n) == first + 7 * n
IndexInYear(first, yearFirstDay, start) == (first - WeekStartOf(yearFirstDay, start)) \div 7
=============================================================================
