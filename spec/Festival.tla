------------------------------ MODULE Festival ------------------------------
(***************************************************************************)
(* Festivals and legal holidays (C20).                                     *)
(* Civil festivals: index -> <<month, day, founding year>>, transcribed    *)
(* from the calendar of public commemorations, not from the packed string. *)
(* Lunar festivals: index -> a fixed lunar month-day, a solar-term day     *)
(* (Qingming = term 7 of the year, winter solstice = the solstice of       *)
(* December, i.e. term 24 counted from the previous solstice) or New       *)
(* Year's Eve (the last day of the lunar year).                            *)
(* Stepping a festival by n moves along the list and carries into other    *)
(* years: (size * year + index + n) with floor carry.                      *)
(***************************************************************************)
EXTENDS Integers, Sequences

CivilFestivals == <<
    <<1, 1, 1950>>,     \* 0 New Year's Day
    <<3, 8, 1950>>,     \* 1 Women's Day
    <<3, 12, 1979>>,    \* 2 Arbor Day
    <<5, 1, 1950>>,     \* 3 Labour Day
    <<5, 4, 1950>>,     \* 4 Youth Day
    <<6, 1, 1950>>,     \* 5 Children's Day
    <<7, 1, 1941>>,     \* 6 Party founding day
    <<8, 1, 1933>>,     \* 7 Army Day
    <<9, 10, 1985>>,    \* 8 Teachers' Day
    <<10, 1, 1950>> >>  \* 9 National Day
CivilCount == 10

(* index of the civil festival on month-day (m, d) of year y, or -1 *)
CivilFestivalOn(y, m, d) ==
    LET c == {i \in 1..CivilCount : CivilFestivals[i][1] = m /\ CivilFestivals[i][2] = d /\ y >= CivilFestivals[i][3]} IN
    IF c = {} THEN -1 ELSE (CHOOSE i \in c : \A k \in c : i <= k) - 1

CivilFestivalAt(y, i) ==      \* <<exists, month, day>>
    IF i < 0 \/ i >= CivilCount THEN <<0, 0, 0>>
    ELSE IF y < CivilFestivals[i + 1][3] THEN <<0, 0, 0>>
    ELSE <<1, CivilFestivals[i + 1][1], CivilFestivals[i + 1][2]>>

(* lunar festivals: <<kind, a, b>>: kind 0 fixed lunar <<month, day>>, kind 1 term index a, kind 2 New Year's Eve *)
LunarFestivals == <<
    <<0, 1, 1>>,    \* 0 Spring Festival
    <<0, 1, 15>>,   \* 1 Lantern Festival
    <<0, 2, 2>>,    \* 2 Dragon-head day
    <<0, 3, 3>>,    \* 3 Shangsi
    <<1, 7, 0>>,    \* 4 Qingming (term 7)
    <<0, 5, 5>>,    \* 5 Dragon Boat
    <<0, 7, 7>>,    \* 6 Qixi
    <<0, 7, 15>>,   \* 7 Zhongyuan
    <<0, 8, 15>>,   \* 8 Mid-Autumn
    <<0, 9, 9>>,    \* 9 Double Ninth
    <<1, 24, 0>>,   \* 10 Winter solstice festival (the solstice of December = term 24)
    <<0, 12, 8>>,   \* 11 Laba
    <<2, 0, 0>> >>  \* 12 New Year's Eve
LunarCount == 13

(* the festivals that fall on lunar date <<lm, ld>> of a year whose Qingming, winter-solstice and last day are the lunar
   dates qm, dz, eve (each <<month, day>>): the earliest-listed one wins; -1 if none *)
LunarFestivalOn(lm, ld, qm, dz, eve) ==
    LET hits == {i \in 1..LunarCount :
                   LET f == LunarFestivals[i] IN
                   \/ f[1] = 0 /\ lm = f[2] /\ ld = f[3]
                   \/ f[1] = 1 /\ f[2] = 7 /\ <<lm, ld>> = qm
                   \/ f[1] = 1 /\ f[2] = 24 /\ <<lm, ld>> = dz
                   \/ f[1] = 2 /\ <<lm, ld>> = eve}
    IN IF hits = {} THEN -1 ELSE (CHOOSE i \in hits : \A k \in hits : i <= k) - 1

(* stepping along a festival list of `size` entries *)
FestivalStep(size, y, i, n) == LET o == size * y + i + n IN <<o \div size, o % size>>
=============================================================================
