----------------------------- MODULE Containers -----------------------------
(***************************************************************************)
(* Containers list exactly their parts (C13).  Expected listings are       *)
(* computed from Civil (civil side), LunarCal (lunar side) and TermClock   *)
(* (sexagenary months); the action List(kind, x) of this component returns *)
(* the sequence below and the trace spec compares it with what the code    *)
(* listed.  Days are day numbers, hour slots are <<day number, second>>.   *)
(***************************************************************************)
EXTENDS Civil, LunarCal

(* civil year -> halves, seasons, months as <<year, index>> *)
HalfYears(y) == << <<y, 0>>, <<y, 1>> >>
Seasons(y) == [i \in 1..4 |-> <<y, i - 1>>]
Months(y) == [i \in 1..12 |-> <<y, i>>]
HalfMonths(y, h) == [i \in 1..6 |-> <<y, 6 * h + i>>]
HalfSeasons(y, h) == [i \in 1..2 |-> <<y, 2 * h + i - 1>>]
SeasonMonths(y, q) == [i \in 1..3 |-> <<y, 3 * q + i>>]
SeasonOfMonth(m) == (m - 1) \div 3

(* civil month -> the day-of-month numbers of the dates that exist in it, in order *)
MonthDayNumbers(y, m) ==
    IF y = 1582 /\ m = 10 THEN <<1, 2, 3, 4, 15, 16, 17, 18, 19, 20, 21, 22, 23, 24, 25, 26, 27, 28, 29, 30, 31>>
    ELSE [i \in 1..LastDayNo(y, m) |-> i]
MonthDays(y, m) == LET dn == MonthDayNumbers(y, m) IN [i \in 1..Len(dn) |-> JDN(y, m, dn[i])]

(* a run of n consecutive day numbers from f *)
Run(f, n) == [i \in 1..n |-> f + i - 1]

(* lunar day -> 13 slots at 0:00 and every odd hour; sexagenary day -> 12 double-hours from 23:00 of the previous day *)
LunarDaySlots(j) == [i \in 1..13 |-> IF i = 1 THEN <<j, 0>> ELSE <<j, (2 * i - 3) * 3600>>]
SexagenaryDaySlots(j) == [i \in 1..12 |-> IF i = 1 THEN <<j - 1, 82800>> ELSE <<j, (2 * i - 3) * 3600>>]
=============================================================================
