------------------------------ MODULE Trace_C05 ------------------------------
(***************************************************************************)
(* C05 — solar terms and new moons sit at the true Sun/Moon longitudes     *)
(* (the part a specification over integers can decide).  Events (harness   *)
(* c05.rs), every quantity an integer projection:                          *)
(*   tq  one solar term       sq  one lunation                             *)
(*   rg  the inverse solvers on a raw grid of target longitudes            *)
(*   dt  TT-UT at one integer year                                         *)
(*   lo  closed-form low-precision instants against the precise ones       *)
(* Bounds and the day rule: Ephemeris.tla.  The distances mtt / mut to an  *)
(* independent low-precision theory are measured by Rust code in the       *)
(* harness (Meeus ch. 25 / 49 with Espenak-Meeus TT-UT): a measuring       *)
(* instrument; the specification contributes quantifier and bound.         *)
(***************************************************************************)
EXTENDS Ephemeris, TraceIO, TLC

VARIABLES l, nv, nt

In(x, a, b) == x >= a /\ x <= b

Clauses(i) ==
  LET e == Rec[i] IN
  CASE e.k = "tq" ->
         [ sameTerm   |-> e.same = 0,                                            \* the term object's instant is the instant at its own target longitude
           dayOfInstant |-> e.y >= TermDayFrom => e.cj = e.pj,
           guardBand  |-> In(e.y, TermDayFrom, 8500) => e.fe < TermGuard,             \* the fast solver stays inside the guard band (it leaves it after about AD 9000)
           residual   |-> e.rs < SubArcsecond,
           theoryCivil |-> In(e.y, 1900, 2150) => e.mut <= SunTheoryCivil,
           theoryTT   |-> In(e.y, 1, 5000) => e.mtt <= SunTheoryTT ]
    [] e.k = "sq" ->
         [ dayOfInstant |-> In(e.y, MoonDayFrom, MoonDayTo) => e.f = e.pj,
           (* every lunation starts a month: this month's conjunction is the one after the previous month's (lunation
              numbers km / pkm measured from the two first days) *)
           consecutive |-> (In(e.y, MoonDayFrom + 1, MoonDayTo) /\ e.pkm > -900000) => e.km = e.pkm + 1,
           guardBand  |-> In(e.y, MoonDayFrom, 6500) => e.fe < MoonGuard,
           residual   |-> e.rs < SubArcsecond,
           theoryCivil |-> In(e.y, 1900, 2150) => e.mut <= MoonTheoryCivil,
           theoryTT   |-> In(e.y, 1, 5000) => e.mtt <= MoonTheoryTT ]
    [] e.k = "rg" ->
         [ residual |-> e.rs < SubArcsecond ]
    [] e.k = "dt" ->
         [ continuous |-> e.jump <= MaxDeltaTJump,
           smooth     |-> e.year <= MaxDeltaTPerYear ]
    [] e.k = "lo" ->
         [ lowprecision |-> e.err <= (IF e.t = 0 THEN LowTermAccuracy ELSE LowMoonAccuracy) ]
    [] e.k = "begin" -> [ begin |-> TRUE ]
    [] OTHER -> [ kind |-> FALSE ]

Failed(i) == LET c == Clauses(i) IN {n \in DOMAIN c : ~c[n]}

Key(i) == LET e == Rec[i] IN
  CASE e.k = "tq" -> [k |-> "tq", y |-> e.y, i |-> e.i]
    [] e.k = "sq" -> [k |-> "sq", y |-> e.y, m |-> e.m]
    [] e.k = "rg" -> [k |-> "rg", t |-> e.t, n |-> e.n, yr |-> e.yr]
    [] e.k = "dt" -> [k |-> "dt", y |-> e.y]
    [] e.k = "lo" -> [k |-> "lo", t |-> e.t, y |-> e.y, i |-> e.i]
    [] OTHER      -> [k |-> e.k]

(* non-trivial: events within the guard band of midnight (the day depends on the fall-back), years inside the
   independent-theory window, TT-UT years with a visible jump *)
Nontrivial(i) == LET e == Rec[i] IN
  CASE e.k \in {"tq", "sq"} -> e.ps < 1800 \/ e.ps > 86400 - 1800 \/ In(e.y, 1900, 2150)
    [] e.k = "dt" -> e.jump > 0
    [] e.k = "begin" -> FALSE
    [] OTHER -> TRUE

INSTANCE TraceRun WITH Prop <- "C05", NLines <- NRec
=============================================================================
