------------------------------ MODULE MC_Weeks ------------------------------
(***************************************************************************)
(* Mode A for C14: all 7 first weekdays x month lengths {21, 28, 29, 30,   *)
(* 31} x 7 week starts, walked week by week (action NextWeek).  Invariants *)
(* of the case analysis: weeks start on the chosen weekday, are 7 apart,   *)
(* the first contains the first day, the last contains the last day, the   *)
(* count is the number of such weeks (4..6), every day of the month lies   *)
(* in the week WeekIndexOf says, and the last week of a month and the      *)
(* first week of the next are the same week iff the border is inside it.   *)
(***************************************************************************)
EXTENDS Weeks, TLC

VARIABLES F, L, start, i

vars == <<F, L, start, i>>

Init == F \in 700..706 /\ L \in {21, 28, 29, 30, 31} /\ start \in 0..6 /\ i = 0
NextWeek == i + 1 < WeekCount(F, L, start) /\ i' = i + 1 /\ UNCHANGED <<F, L, start>>
Spec == Init /\ [][NextWeek]_vars

first == WeekFirstDay(F, start, i)
InvStart   == Weekday(first) = start
InvStride  == i > 0 => first = WeekFirstDay(F, start, i - 1) + 7
InvFirst   == i = 0 => (first <= F /\ F <= first + 6)
InvLast    == i = WeekCount(F, L, start) - 1 => (first <= F + L - 1 /\ F + L - 1 <= first + 6)
InvCount   == WeekCount(F, L, start) \in 3..6 /\ (L >= 28 => WeekCount(F, L, start) >= 4)
InvCover   == \A j \in F..(F + L - 1) : WeekIndexOf(F, start, j) \in 0..(WeekCount(F, L, start) - 1)
                                         /\ WeekFirstDay(F, start, WeekIndexOf(F, start, j)) = WeekStartOf(j, start)
InvBorder  == LET lastFirst == WeekFirstDay(F, start, WeekCount(F, L, start) - 1)
                  nextFirst == WeekFirstDay(F + L, start, 0)
              IN (lastFirst = nextFirst) <=> (Weekday(F + L) # start)
=============================================================================
