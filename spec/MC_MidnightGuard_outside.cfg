SPECIFICATION Spec
CONSTANTS
  Guard = 1800
  MaxErr = 3600
INVARIANT Unsound
CHECK_DEADLOCK FALSE
