SPECIFICATION Spec
INVARIANTS InvRange InvMouse InvLuck InvRow
CHECK_DEADLOCK FALSE
