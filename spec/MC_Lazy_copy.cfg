SPECIFICATION Spec
CONSTANTS
  Regs = {1, 2}
  Deltas <- MCDeltas
  MaxOps = 5
  StepMode = "copy"
INVARIANT Inv
CHECK_DEADLOCK FALSE
