SPECIFICATION Spec
CONSTANT Years = 3
INVARIANTS InvLabel InvIndex InvOrder InvTile InvLoose InvNewYear
CHECK_DEADLOCK FALSE
