------------------------------- MODULE Series -------------------------------
(***************************************************************************)
(* Term-anchored day series (C15), each re-derived from term DAYS and the  *)
(* day pillar (day number + 49) mod 60 only:                               *)
(*   Nines        81 days from each winter-solstice day, nine Nines of 9   *)
(*   Dog days     from the third Geng day on or after the summer-solstice  *)
(*                day: 10, then 10 or 20 (20 iff the fifth Geng day        *)
(*                precedes the start-of-autumn day), then 10               *)
(*   Plum rains   first Bing day on or after Grain-in-Ear .. first Wei day  *)
(*                on or after Slight Heat                                   *)
(*   Pentads      three per term: days 0-4, 5-9, 10 and later              *)
(*   Commanding stems  the classical allotment of the days of each Jie     *)
(*                month, counted from its Jie day                          *)
(* A result is <<kind index, day index>>; None = <<-1, -1>>.               *)
(***************************************************************************)
EXTENDS Integers, Sequences

None == <<-1, -1>>
Pillar(j) == (j + 49) % 60
StemOfDay(j) == Pillar(j) % 10
BranchOfDay(j) == Pillar(j) % 12

(* first day >= d whose stem is s / whose branch is b *)
FirstStemDay(d, s) == d + ((s - StemOfDay(d)) % 10)
FirstBranchDay(d, b) == d + ((b - BranchOfDay(d)) % 12)

Geng == 6  Bing == 2  WeiB == 7

(* ws0 = winter-solstice day of December of the previous civil year, ws1 = of this December *)
Nine(j, ws0, ws1) ==
    LET w == IF j >= ws1 THEN ws1 ELSE ws0
        n == j - w
    IN IF n >= 0 /\ n < 81 THEN <<n \div 9, n % 9>> ELSE None

(* xz = summer-solstice day, lq = start-of-autumn day *)
DogStart(xz) == FirstStemDay(xz, Geng) + 20
MiddleLength(xz, lq) == IF DogStart(xz) + 20 < lq THEN 20 ELSE 10
Dog(j, xz, lq) ==
    LET d0 == DogStart(xz)
        ml == MiddleLength(xz, lq)
        n == j - d0
    IN IF n < 0 THEN None
       ELSE IF n < 10 THEN <<0, n>>
       ELSE IF n < 10 + ml THEN <<1, n - 10>>
       ELSE IF n < 20 + ml THEN <<2, n - 10 - ml>>
       ELSE None

(* mz = Grain-in-Ear day, xs = Slight-Heat day *)
PlumRain(j, mz, xs) ==
    LET s == FirstStemDay(mz, Bing)
        e == FirstBranchDay(xs, WeiB)
    IN IF j < s \/ j > e THEN None
       ELSE IF j = e THEN <<1, 0>>
       ELSE <<0, j - s>>

(* ti = index of the term governing the day, tj = that term's day *)
Pentad(j, ti, tj) ==
    LET n == j - tj
        k == IF n \div 5 > 2 THEN 2 ELSE n \div 5
    IN <<3 * ti + k, n - 5 * k>>

(* classical allotment per Jie month, Yin month first: <<stem, days>> in the order the stems take command; the last
   stem takes the rest of the month.  Stems: Jia 0 .. Gui 9. *)
Allotment == <<
    << <<4, 7>>, <<2, 7>>, <<0, 99>> >>,      \* Yin:  Wu 7, Bing 7, Jia the rest
    << <<0, 10>>, <<1, 99>> >>,               \* Mao:  Jia 10, Yi
    << <<1, 9>>, <<9, 3>>, <<4, 99>> >>,      \* Chen: Yi 9, Gui 3, Wu
    << <<4, 5>>, <<6, 9>>, <<2, 99>> >>,      \* Si:   Wu 5, Geng 9, Bing
    << <<2, 10>>, <<5, 9>>, <<3, 99>> >>,     \* Wu:   Bing 10, Ji 9, Ding
    << <<3, 9>>, <<1, 3>>, <<5, 99>> >>,      \* Wei:  Ding 9, Yi 3, Ji
    << <<4, 10>>, <<8, 3>>, <<6, 99>> >>,     \* Shen: Wu 10, Ren 3, Geng
    << <<6, 10>>, <<7, 99>> >>,               \* You:  Geng 10, Xin
    << <<7, 9>>, <<3, 3>>, <<4, 99>> >>,      \* Xu:   Xin 9, Ding 3, Wu
    << <<4, 7>>, <<0, 5>>, <<8, 99>> >>,      \* Hai:  Wu 7, Jia 5, Ren
    << <<8, 10>>, <<9, 99>> >>,               \* Zi:   Ren 10, Gui
    << <<9, 9>>, <<7, 3>>, <<5, 99>> >>       \* Chou: Gui 9, Xin 3, Ji
>>

(* ji = index (odd) of the Jie that opens the month, jj = its day: <<stem, position in the month's list, day index inside>> *)
Commanding(j, ji, jj) ==
    LET k == ((ji - 3 + 24) % 24) \div 2
        a == Allotment[k + 1]
        n == j - jj
        RECURSIVE Go(_, _)
        Go(pos, start) == IF pos = Len(a) \/ n < start + a[pos][2] THEN <<a[pos][1], pos, n - start>>
                          ELSE Go(pos + 1, start + a[pos][2])
    IN Go(1, 0)

(* the list position -> hidden-stem type code (0 residual, 1 middle, 2 main): a two-stem month has no middle one *)
TypeOf(ji, pos) ==
    LET k == ((ji - 3 + 24) % 24) \div 2 IN
    IF Len(Allotment[k + 1]) = 2 THEN (IF pos = 1 THEN 0 ELSE 2) ELSE pos - 1
=============================================================================
