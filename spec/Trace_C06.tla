------------------------------ MODULE Trace_C06 ------------------------------
(***************************************************************************)
(* C06 — every day belongs to exactly one solar term: ordered, evenly      *)
(* spaced, consistent.  Events (harness c06.rs):                           *)
(*   t   one term (year, index): instant, stepping +-1 / by n vs           *)
(*       constructing, name lookup, parity; NextTerm relates consecutive   *)
(*       lines (strictly increasing instants 14.6-15.8 days apart)         *)
(*   d   one civil day: assigned term, day index, that term's day and the  *)
(*       next term's day; TermTick relates consecutive days                *)
(*   ti  an instant around a term instant and the term it is assigned      *)
(***************************************************************************)
EXTENDS TermClock, Civil, TraceIO, TLC

VARIABLES l, nv, nt

IsT(i) == i >= 1 /\ i <= NRec /\ Rec[i].k = "t"
InRangeTerm(t) == t[1] >= 1 /\ t[1] <= 9999

FarOk(e) ==
  \A k \in 0..((Len(e.far) \div 7) - 1) :
    LET n  == e.far[7 * k + 1]
        want == TermStep(e.y, e.i, n)
    IN InRangeTerm(want) =>
         /\ <<e.far[7 * k + 2], e.far[7 * k + 3]>> = want        \* next(n)
         /\ <<e.far[7 * k + 5], e.far[7 * k + 6]>> = want        \* from_index(y, i + n)
         /\ e.far[7 * k + 4] = e.far[7 * k + 7]                  \* the same term (same calendar day)

TermClauses(i) ==
  LET e == Rec[i]
      hasp == e.s = 0 /\ IsT(i - 1) /\ Rec[i - 1].sg = e.sg /\ Rec[i - 1].ok = 1 /\ e.ok = 1
      p == Rec[i - 1]
      nx == TermStep(e.y, e.i, 1)
      pv == TermStep(e.y, e.i, -1)
  IN
  [ label   |-> e.gy = e.y /\ e.gi = e.i,
    instant |-> e.ok = 1 \/ (e.y = 1 /\ e.i = 0),          \* the winter solstice "of year 1" lies in civil year 0
    next    |-> InRangeTerm(nx) => e.nx = nx,
    prev    |-> InRangeTerm(pv) => e.pv = pv,
    zero    |-> e.z = <<e.y, e.i>>,
    name    |-> e.nm = <<e.y, e.i>>,
    parity  |-> e.jie = Flag(IsJie(e.i)) /\ e.qi = Flag(IsQi(e.i)),
    far     |-> FarOk(e),
    (* NextTerm(p, e) *)
    order   |-> hasp => (NextTermLabel(p, e) => InstLess(<<p.tj, p.ts>>, <<e.tj, e.ts>>)),
    gap     |-> hasp => (NextTermLabel(p, e) => NextTermGap(p, e)),
    valid   |-> e.ok = 1 => (InRangeJ(e.tj) /\ e.ts >= 0 /\ e.ts < 86400)
  ]

(* every term of every year, label and instant only: one strictly increasing sequence, 14.6 - 15.8 days apart *)
LightClauses(i) ==
  LET e == Rec[i]
      hasp == e.s = 0 /\ i > 1 /\ Rec[i - 1].k = "tg" /\ Rec[i - 1].tj > 0 /\ e.tj > 0
      p == Rec[i - 1]
  IN
  [ instant |-> e.tj > 0 /\ e.ts >= 0 /\ e.ts < 86400,
    order   |-> hasp => (NextTermLabel(p, e) => InstLess(<<p.tj, p.ts>>, <<e.tj, e.ts>>)),
    gap     |-> hasp => (NextTermLabel(p, e) => NextTermGap(p, e))
  ]

DayClauses(i) ==
  LET e == Rec[i]
      hasp == e.s = 0 /\ i > 1 /\ Rec[i - 1].k = "d" /\ Rec[i - 1].ok = 1 /\ e.ok = 1 /\ e.j = Rec[i - 1].j + 1
      p == Rec[i - 1]
  IN
  [ civil     |-> Valid(e.y, e.m, e.d) /\ e.j = JDN(e.y, e.m, e.d),
    assigned |-> e.ok = 1,
    bracket  |-> e.ok = 1 => (e.tj <= e.j /\ (e.nj < 0 \/ e.j < e.nj)),
    (* the day a term starts on is one and the same whether the term is asked for its day or for its instant:
       the day view and the instant view of C06 cut the time line at the same places *)
    oneday   |-> e.ok = 1 => (e.tij = e.tj /\ e.nij = e.nj),
    index    |-> e.ok = 1 => e.td = e.j - e.tj,
    bound    |-> e.ok = 1 => (e.td >= 0 /\ e.td <= MaxDayIndex),
    same     |-> e.ok = 1 => e.gt = e.ti,
    tick     |-> hasp => TermTick(p, e)
  ]

InstantClauses(i) ==
  LET e == Rec[i]
      want == IF e.off < 0 THEN TermStep(e.y, e.i, -1) ELSE <<e.y, e.i>>
  IN
  [ assigned |-> e.ok = 1,
    term     |-> e.ok = 1 => <<e.gy, e.gi>> = want,
    inside   |-> (e.off >= 0 /\ e.nj >= 0) => (InstLeq(<<e.tj, e.ts>>, <<e.qj, e.qs>>) /\ InstLess(<<e.qj, e.qs>>, <<e.nj, e.ns>>))
  ]

Clauses(i) ==
  CASE Rec[i].k = "t"  -> TermClauses(i)
    [] Rec[i].k = "d"  -> DayClauses(i)
    [] Rec[i].k = "tg" -> LightClauses(i)
    [] Rec[i].k = "ti" -> InstantClauses(i)
    [] OTHER           -> [walk |-> FALSE]

Failed(i) == LET c == Clauses(i) IN {n \in DOMAIN c : ~c[n]}

Key(i) == LET e == Rec[i] IN
  CASE e.k = "t"  -> [k |-> "t", y |-> e.y, i |-> e.i]
    [] e.k = "d"  -> [k |-> "d", y |-> e.y, m |-> e.m, d |-> e.d, n |-> e.y * 10000 + e.m * 100 + e.d]
    [] e.k = "ti" -> [k |-> "ti", y |-> e.y, i |-> e.i, off |-> e.off]
    [] e.k = "tg" -> [k |-> "tg", y |-> e.y, i |-> e.i]
    [] OTHER      -> [k |-> e.k, at |-> e.at]

(* non-trivial: year carries, term days and the day before, instants at / before the boundary *)
Nontrivial(i) == LET e == Rec[i] IN
  CASE e.k = "t"  -> e.i \in {0, 23}
    [] e.k = "d"  -> e.td = 0 \/ e.td >= 14
    [] e.k = "ti" -> e.off <= 1
    [] e.k = "tg" -> e.i \in {0, 23}
    [] OTHER      -> TRUE

INSTANCE TraceRun WITH Prop <- "C06", NLines <- NRec
=============================================================================
