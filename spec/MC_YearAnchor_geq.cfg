SPECIFICATION Spec
CONSTANT U = 4
CONSTANT L = 118
CONSTANT Pert <- MCPert
CONSTANT Steps <- MCSteps
CONSTANT Mode = "geq"
INVARIANT AnchorLaw
INVARIANT AnchorNear
CHECK_DEADLOCK FALSE
