SPECIFICATION Spec
CONSTANTS
  Lengths <- MCLengths
  NLun = 5
  MaxOff = 2
  LoopMode = "backOnly"
INVARIANT Found
CHECK_DEADLOCK FALSE
