----------------------------- MODULE TermLookup -----------------------------
(***************************************************************************)
(* C06 / C08 / C15 — the day -> solar-term LOOKUP of SolarDay::get_term_day *)
(* (and SolarTime::get_term) as a transition system:                       *)
(*                                                                         *)
(*     k := 2 * month + StartOffset;  while day < TermDay(k) { k := k - 1 } *)
(*                                                                         *)
(* StartOffset = 0 is the lookup as found (it starts at the month's own    *)
(* second term), StartOffset = 1 the repaired one (fix e2b1b4e: it starts  *)
(* at the term after it).  The calendar is one abstract civil year of 365  *)
(* days; the 24 terms sit at their modern day-of-year positions shifted by *)
(* Phase days.  Phase is the model's free parameter: the Julian calendar   *)
(* drifts against the Sun, so in the library's range the terms fall up to  *)
(* about 13 days EARLIER in the month than today (measured on the library: *)
(* term 2m+1 starts up to 7 days before month m ends, term 2m+2 never less *)
(* than 8 days after it).                                                  *)
(*                                                                         *)
(* Property (Latest): the loop ends at the latest term that starts on or   *)
(* before the day.  MC_TermLookup.cfg: the repaired lookup holds for every *)
(* Phase in -14..3; MC_TermLookup_asfound.cfg (expected to FAIL): the      *)
(* lookup as found is wrong as soon as Phase <= -5, i.e. as soon as the    *)
(* month's second-next term slips into the month — the 31,500 days of C06. *)
(***************************************************************************)
EXTENDS Integers, Sequences

CONSTANTS StartOffset, MinPhase, MaxPhase

(* day of year (1..365) of term k = 0..24 in the modern calendar: 0 = winter solstice of the previous December *)
Nominal == <<-9, 5, 20, 35, 50, 64, 79, 94, 110, 125, 141, 156, 172, 188, 204, 219, 235, 250, 266, 281, 296, 311, 326, 341, 356>>
MonthStart == <<1, 32, 60, 91, 121, 152, 182, 213, 244, 274, 305, 335, 366>>

VARIABLES phase, day, k, pc
vars == <<phase, day, k, pc>>

(* term k may be asked for beyond the table: terms repeat every 365 days *)
TermDay(p, i) == IF i < 0 THEN Nominal[i + 24 + 1] - 365 + p
                 ELSE IF i > 24 THEN Nominal[i - 24 + 1] + 365 + p
                 ELSE Nominal[i + 1] + p
MonthOf(d) == CHOOSE m \in 1..12 : MonthStart[m] <= d /\ d < MonthStart[m + 1]

Init ==
  /\ phase \in MinPhase..MaxPhase
  /\ day \in 1..365
  /\ k = 2 * MonthOf(day) + StartOffset
  /\ pc = "loop"

Back ==
  /\ pc = "loop" /\ day < TermDay(phase, k)
  /\ k' = k - 1
  /\ UNCHANGED <<phase, day, pc>>

Exit ==
  /\ pc = "loop" /\ ~(day < TermDay(phase, k))
  /\ pc' = "done"
  /\ UNCHANGED <<phase, day, k>>

Next == Back \/ Exit
Spec == Init /\ [][Next]_vars /\ WF_vars(Next)

(* the loop ends at the latest term that starts on or before the day *)
Latest == pc = "done" => (TermDay(phase, k) <= day /\ day < TermDay(phase, k + 1))
(* the day index stays below 17 *)
Bound == pc = "done" => day - TermDay(phase, k) <= 16
Termination == <>(pc = "done")
=============================================================================
