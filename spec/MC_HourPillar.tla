---------------------------- MODULE MC_HourPillar ----------------------------
(***************************************************************************)
(* Mode A/C for C09: a clock walks the 24 hours of days with every day     *)
(* pillar (60 x 24 states, complete) and emits one REPLAY case per state:  *)
(* (day pillar, hour) -> rolled day pillar, hour pillar.  Invariants: the  *)
(* hour pillar is legal (stem/branch parity), advances by one per          *)
(* double-hour through midnight, and the Zi hour of a Jia or Ji day is     *)
(* Jia-Zi.  The harness finds real dates with each day pillar in three     *)
(* eras and replays every case.                                            *)
(***************************************************************************)
EXTENDS EightChar, TLC, Json, Sequences

VARIABLES dp, h

vars == <<dp, h>>

Init == dp \in 0..59 /\ h = 0
Next == h < 23 /\ h' = h + 1 /\ dp' = dp
Spec == Init /\ [][Next]_vars

hp == HourPillar(dp, h)
InvLegal  == hp \in 0..59 /\ Branch(hp) = HourBranch(h)
InvRats   == (h \in {0, 23} /\ Stem(RolledDay(dp, h)) \in {0, 5}) => hp = 0
InvAdvance == (h >= 1 /\ h % 2 = 1 /\ h < 23) => hp = (HourPillar(dp, h - 1) + 1) % 60
InvSame   == (h >= 2 /\ h % 2 = 0) => hp = HourPillar(dp, h - 1)
InvRoll   == h = 23 => hp = HourPillar((dp + 1) % 60, 0)
Emit      == PrintT("REPLAY " \o ToJson([c |-> <<dp, h, RolledDay(dp, h), hp>>]))
Inv == InvLegal /\ InvRats /\ InvAdvance /\ InvSame /\ InvRoll /\ Emit
=============================================================================
