------------------------------- MODULE Almanac -------------------------------
(***************************************************************************)
(* Daily and hourly almanac cycles as recurrences over the day clock (C17).*)
(* Indices: branches 0..11 (Zi first), officers 0..11 (Jian first),        *)
(* Yellow/Black-path spirits 0..11 (Azure Dragon first), mansions 0..27    *)
(* (Jiao first), six-day stars 0..5, nine stars 0..8 (One White first).    *)
(***************************************************************************)
EXTENDS Integers, Sequences

Pillar(j) == (j + 49) % 60
Branch(p) == p % 12
AbsI(x) == IF x < 0 THEN -x ELSE x

(* day officer: Jian on the day whose branch is the month branch, then one per day *)
Officer(dayBranch, monthBranch) == (dayBranch - monthBranch) % 12

(* Azure Dragon starts at Zi in Yin/Shen months, Yin in Mao/You, Chen in Chen/Xu, Wu in Si/Hai, Shen in Zi/Wu, Xu in Chou/Wei
   months, and the spirits follow the branches; for hours the day branch takes the place of the month branch *)
DragonStart(rulingBranch) == 2 * ((rulingBranch - 2) % 6)
PathSpirit(branch, rulingBranch) == (branch - DragonStart(rulingBranch)) % 12

(* the mansion's luminary is the weekday: Jiao wood (Thursday 4), Kang metal 5, Di earth 6, Fang sun 0, Xin moon 1, Wei fire 2, Ji water 3 *)
MansionWeekday(i) == <<4, 5, 6, 0, 1, 2, 3>>[(i % 7) + 1]

(* six-day star restarts every lunar month; a leap month uses its own number *)
SixStar(lm, ld) == (AbsI(lm) + ld - 2) % 6

(* moon phase and minor Liu Ren *)
Phase(ld) == ld - 1
MinorRenMonth(lm) == (AbsI(lm) - 1) % 6
MinorRenDay(lm, ld) == (MinorRenMonth(lm) + ld - 1) % 6
MinorRenHour(lm, ld, hourIndex) == (MinorRenDay(lm, ld) + hourIndex) % 6

(* year star: One White in the Jiazi year 1864 of the upper era, descending by one per year *)
YearStar(y) == (1864 - y) % 9

(* month star: Yin month starts at Eight White in Zi Wu Mao You years, Five Yellow in Chen Xu Chou Wei years,
   Two Black in Yin Shen Si Hai years, descending by one per month; k = 0 for the Yin month *)
MonthStar(yearBranch, monthBranch) == (7 - 3 * (yearBranch % 3) - ((monthBranch - 2) % 12)) % 9

(* day star: ascending from One White on the Jiazi day nearest the winter solstice, descending from Nine Purple on the
   Jiazi day nearest the summer solstice.  xz0 / dz0 / xz / dz1 = days of the previous summer solstice, the winter
   solstice of last December, this summer solstice, this December's winter solstice *)
NearestJiazi(d) == LET p == Pillar(d) IN IF p > 29 THEN d + (60 - p) ELSE d - p
DayStar(j, xz0, dz0, xz, dz1) ==
    LET sb == NearestJiazi(dz0)  nz == NearestJiazi(xz)  sb2 == NearestJiazi(dz1)  nz0 == NearestJiazi(xz0) IN
    IF j >= sb2 THEN (j - sb2) % 9
    ELSE IF j >= nz THEN (8 - (j - nz)) % 9
    ELSE IF j >= sb THEN (j - sb) % 9
    ELSE (8 - (j - nz0)) % 9

(* hour star: after the winter solstice ascending from One White (Zi Wu Mao You days), Four Green (Chen Xu Chou Wei),
   Seven Red (Yin Shen Si Hai) at the Zi hour; after the summer solstice descending from Nine Purple, Six White, Three Jade *)
Ascending(j, dz0, xz, dz1) == (j >= dz0 /\ j < xz) \/ j >= dz1
HourStar(asc, dayBranch, hourBranch) ==
    IF asc THEN (3 * (dayBranch % 3) + hourBranch) % 9
    ELSE (8 - 3 * (dayBranch % 3) - hourBranch) % 9

(* Tick clauses of the daily cycles between consecutive days a, b *)
OfficerTick(a, b) == (b.mb = a.mb) => b.duty = (a.duty + 1) % 12        \* same sexagenary month: +1; a Jie day repeats the officer
MansionTick(a, b) == b.ms = (a.ms + 1) % 28
SixStarTick(a, b) == IF b.ld = 1 THEN b.six = (AbsI(b.lm) - 1) % 6 ELSE b.six = (a.six + 1) % 6
=============================================================================
