---------------------------- MODULE MC_DayClock ----------------------------
(***************************************************************************)
(* Mode A for C02/C07: the day clock over Days days with free astronomy    *)
(* (each new month takes 29 or 30 days, each year any leap month).         *)
(* Invariants: the anchored forms of weekday and pillar follow from Tick,  *)
(* the lunar day stays inside its month, lunar order is day-number order.  *)
(***************************************************************************)
EXTENDS DayClock, TLC

CONSTANTS J0, Days

VARIABLES s, lp, prev

vars == <<s, lp, prev>>

Init == /\ lp \in 0..12
        /\ \E n \in MonthLens, d0 \in {1, 15, 29} :
             s = [j |-> J0, w |-> Weekday(J0), p |-> PillarOf(J0), ly |-> 1, lm |-> 11, ld |-> d0, ln |-> n]
        /\ prev = <<0, 0, 0>>

Tick ==
    /\ s.j < J0 + Days
    /\ prev' = <<s.ly, s.lm, s.ld>>
    /\ IF s.ld < s.ln
       THEN /\ s' = [s EXCEPT !.j = @ + 1, !.w = (@ + 1) % 7, !.p = (@ + 1) % 60, !.ld = @ + 1]
            /\ lp' = lp
       ELSE LET sc == LabelSucc(s.ly, s.lm, lp) IN
            /\ \E n \in MonthLens :
                 s' = [s EXCEPT !.j = @ + 1, !.w = (@ + 1) % 7, !.p = (@ + 1) % 60, !.ly = sc[1], !.lm = sc[2], !.ld = 1, !.ln = n]
            /\ IF sc[1] = s.ly THEN lp' = lp ELSE lp' \in 0..12

Spec == Init /\ [][Tick]_vars

InvAnchors == s.w = Weekday(s.j) /\ s.p = PillarOf(s.j)
InvLunar   == LunarDateOk(s)
InvOrder   == prev[1] > 0 => LunarLess(prev, <<s.ly, s.lm, s.ld>>)
InvTick    == prev[1] > 0 => LunarTick([ly |-> prev[1], lm |-> prev[2], ld |-> prev[3], ln |-> IF s.ld = 1 THEN prev[3] ELSE s.ln], s)
(* two dated pillars: 2000-01-01 is a Wuwu day (54), 1949-10-01 a Jiazi day (0) *)
InvDated   == PillarOf(2451545) = 54 /\ PillarOf(JDN(1949, 10, 1)) = 0 /\ Weekday(JDN(1949, 10, 1)) = 6
=============================================================================
