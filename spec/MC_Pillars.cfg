SPECIFICATION Spec
INVARIANTS InvClosed InvTigers InvLegal InvJia
CHECK_DEADLOCK FALSE
