SPECIFICATION Spec
CONSTANTS
  J0 = 2451545
  Days = 40
INVARIANTS InvOfficer InvJian InvPath InvMansion InvSix
CHECK_DEADLOCK FALSE
