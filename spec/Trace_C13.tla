------------------------------ MODULE Trace_C13 ------------------------------
(***************************************************************************)
(* C13 — containers list exactly their parts.  One List event per          *)
(* container (harness c13.rs): cy civil year, cm civil month, ly lunar     *)
(* year, lmo lunar month, dh the hour slots of a day, sxm a sexagenary     *)
(* month.  The expected listings are those of Containers.tla.              *)
(***************************************************************************)
EXTENDS Containers, TraceIO, TLC

VARIABLES l, nv, nt

Pairs(flat) == [i \in 1..(Len(flat) \div 2) |-> <<flat[2 * i - 1], flat[2 * i]>>]
Cat3(a, b, c) == a \o b \o c
Consecutive(s) == \A i \in 1..(Len(s) - 1) : s[i + 1] = s[i] + 1

Clauses(i) ==
  LET e == Rec[i] IN
  CASE e.k = "cy" ->
         [ lists    |-> e.ok = 1,
           halves   |-> Len(e.h) % 2 = 0 /\ Pairs(e.h) = HalfYears(e.y),
           seasons  |-> Len(e.q) % 2 = 0 /\ Pairs(e.q) = Seasons(e.y),
           months   |-> Len(e.mo) % 2 = 0 /\ Pairs(e.mo) = Months(e.y),
           nestHM   |-> e.hm = [k \in 1..12 |-> e.y * 100 + k],
           nestHS   |-> e.hs = [k \in 1..4 |-> e.y * 10 + k - 1],
           nestSM   |-> e.sm = [k \in 1..12 |-> e.y * 100 + k],
           monthSeason |-> e.ms = [k \in 1..12 |-> SeasonOfMonth(k)],
           daycount |-> e.sum = YearLen(e.y) /\ e.ylen = YearLen(e.y) ]
    [] e.k = "cm" ->
         [ lists   |-> e.ok = 1,
           numbers |-> e.ok = 1 => e.dn = MonthDayNumbers(e.y, e.m),
           days    |-> e.ok = 1 => (e.dj = MonthDays(e.y, e.m) /\ e.same = 1),
           count   |-> e.cnt = Dim(e.y, e.m) /\ (e.ok = 1 => Len(e.dn) = e.cnt),
           dayofyear |-> e.ok = 1 => (e.doy[1] = Doy(e.y, e.m, MonthDayNumbers(e.y, e.m)[1]) - 1 /\ e.doy[2] = e.doy[1] + Dim(e.y, e.m) - 1) ]
    [] e.k = "ly" ->
         [ lists  |-> e.ok = 1,
           labels |-> (e.ok = 1 /\ e.lp \in 0..12) => (e.ml = YearLabels(e.lp) /\ e.yok = 1),
           count  |-> e.lp \in 0..12 /\ e.cnt = MonthCount(e.lp) /\ (e.ok = 1 => Len(e.ml) = e.cnt) ]
    [] e.k = "lmo" ->
         [ lists   |-> e.ok = 1,
           numbers |-> e.ok = 1 => (e.dn = Run(1, e.n) /\ e.same = 1),
           length  |-> e.n \in {29, 30},
           days    |-> e.ok = 1 => \A k \in DOMAIN e.dj : InRangeJ(e.f + k - 1) => e.dj[k] = e.f + k - 1 ]
    [] e.k = "dh" ->
         [ lists     |-> e.lok = 1 /\ e.sok = 1,
           lunarDay  |-> e.lok = 1 => (Pairs(e.ls) = LunarDaySlots(e.j) /\ e.lsame = 1),
           sexagenary |-> e.sok = 1 => (Pairs(e.ss) = SexagenaryDaySlots(e.j) /\ e.sb = [k \in 1..12 |-> k - 1]
                                        /\ e.sdp = [k \in 1..12 |-> e.p]) ]
    [] e.k = "sxm" ->
         [ lists |-> e.ok = 1,
           days  |-> (e.ok = 1 /\ e.a > 0 /\ e.b > e.a) => (e.dj = Run(e.a, e.b - e.a) /\ e.same = 1) ]
    [] OTHER -> [ kind |-> FALSE ]

Failed(i) == LET c == Clauses(i) IN {n \in DOMAIN c : ~c[n]}

Key(i) == LET e == Rec[i] IN
  CASE e.k = "cy"  -> [k |-> "cy", y |-> e.y]
    [] e.k = "cm"  -> [k |-> "cm", y |-> e.y, m |-> e.m]
    [] e.k = "ly"  -> [k |-> "ly", y |-> e.y]
    [] e.k = "lmo" -> [k |-> "lmo", y |-> e.y, m |-> e.m]
    [] e.k = "dh"  -> [k |-> "dh", j |-> e.j]
    [] e.k = "sxm" -> [k |-> "sxm", y |-> e.y, o |-> e.o]
    [] OTHER       -> [k |-> e.k]

(* non-trivial: February, October 1582, leap years (civil and lunar), leap months, year-end containers *)
Nontrivial(i) == LET e == Rec[i] IN
  CASE e.k = "cm"  -> e.m = 2 \/ e.m = 12 \/ (e.y = 1582 /\ e.m = 10)
    [] e.k = "ly"  -> e.lp > 0
    [] e.k = "lmo" -> e.m < 0 \/ e.m \in {1, 12}
    [] OTHER       -> TRUE

INSTANCE TraceRun WITH Prop <- "C13", NLines <- NRec
=============================================================================
