SPECIFICATION Spec
CONSTANT K = 12
INVARIANTS InvNumber InvLeap InvFirst InvClose
CHECK_DEADLOCK FALSE
