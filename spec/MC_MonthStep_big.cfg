SPECIFICATION Spec
CONSTANTS
  NYears = 3
  MaxStep = 16
INVARIANTS Ordinality Label
PROPERTY Termination
CHECK_DEADLOCK FALSE
