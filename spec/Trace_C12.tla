------------------------------ MODULE Trace_C12 ------------------------------
(***************************************************************************)
(* C12 — clock arithmetic to the second and Julian-date <-> clock          *)
(* conversion are exact.  Events (harness c12.rs):                         *)
(*   add  SolarTime::next(n)            -> action Add of Clock.tla         *)
(*   sub  subtract / is_before / is_after / ==  -> Diff, Less              *)
(*   rt   instant -> Julian date -> instant                                *)
(*   jd   Julian date (day number, millisecond of day) -> instant / day    *)
(*   mk   JulianDay::from_ymd_hms of an instant                            *)
(***************************************************************************)
EXTENDS Clock, Civil, TraceIO, TLC

VARIABLES l, nv, nt

InRangeT(t) == InRangeJ(t[1])

(* the calendar fields of an instant *)
FieldsOf(t) == LET d == DateOf(t[1]) IN <<d[1], d[2], d[3], t[2] \div 3600, (t[2] \div 60) % 60, t[2] % 60>>

Clauses(i) ==
  LET e == Rec[i] IN
  CASE e.k = "add" ->
         LET want == Add(<<e.j, e.sec>>, e.n) IN
         [ returns |-> InRangeT(want) => e.ok = 1,
           add     |-> (InRangeT(want) /\ e.ok = 1) => <<e.rj, e.rs>> = want,
           fields  |-> (InRangeT(want) /\ e.ok = 1) => e.f = FieldsOf(want) ]
    [] e.k = "sub" ->
         LET a == <<e.ja, e.sa>>  b == <<e.jb, e.sb>> IN
         [ returns |-> e.ok = 1,
           diff    |-> e.ok = 1 => <<e.dd, e.ds>> = Diff(a, b),
           order   |-> e.ok = 1 => (e.bef = Flag(Less(a, b)) /\ e.aft = Flag(Less(b, a)) /\ e.eq = Flag(a = b)) ]
    [] e.k = "rt" ->
         [ roundtrip |-> e.ok = 1 /\ <<e.bj, e.bs>> = <<e.j, e.sec>> ]
    [] e.k = "mk" ->
         [ juliandate |-> e.mj = e.j /\ (e.ms - e.sec * 1000 <= 1 /\ e.sec * 1000 - e.ms <= 1) ]
    [] e.k = "jd" ->
         LET jm == <<e.j, e.ms>>
             lo == RoundDown(jm)  hi == RoundUp(jm)  nr == Nearest(jm)
             got == <<e.rj, e.rs>>
         IN
         [ returns |-> InRangeT(hi) => (e.ok = 1 /\ e.dok = 1),
           nearest |-> (InRangeT(hi) /\ e.ok = 1) => (IF NearTie(jm) THEN got \in {lo, hi} ELSE got = nr),
           valid   |-> e.ok = 1 => (ValidInstant(got) /\ InRangeT(got) /\ AbsMs(got, jm) <= 501),
           day     |-> (e.ok = 1 /\ e.dok = 1) => e.dj = e.rj ]
    [] OTHER -> [ kind |-> FALSE ]

Failed(i) == LET c == Clauses(i) IN {n \in DOMAIN c : ~c[n]}

Key(i) == LET e == Rec[i] IN
  CASE e.k = "add" -> [k |-> "add", j |-> e.j, sec |-> e.sec, n |-> e.n]
    [] e.k = "sub" -> [k |-> "sub", j |-> e.ja, sec |-> e.sa, j2 |-> e.jb, sec2 |-> e.sb]
    [] e.k = "rt"  -> [k |-> "rt", j |-> e.j, sec |-> e.sec]
    [] e.k = "mk"  -> [k |-> "mk", j |-> e.j, sec |-> e.sec]
    [] e.k = "jd"  -> [k |-> "jd", j |-> e.j, ms |-> e.ms]
    [] OTHER       -> [k |-> e.k]

(* non-trivial: additions that change the day, pairs on different days, Julian dates that round up or carry *)
Nontrivial(i) == LET e == Rec[i] IN
  CASE e.k = "add" -> e.rj # e.j
    [] e.k = "sub" -> e.ja # e.jb
    [] e.k = "jd"  -> e.ms % 1000 >= 499
    [] OTHER       -> TRUE

INSTANCE TraceRun WITH Prop <- "C12", NLines <- NRec
=============================================================================
