SPECIFICATION Spec
CONSTANTS
  Lengths <- MCLengthsSmall
  NMonths = 3
  MaxStep = 6
INVARIANTS StepLaw Offered
PROPERTY Termination
CHECK_DEADLOCK FALSE
