------------------------------ MODULE Trace_C11 ------------------------------
(***************************************************************************)
(* C11 — stepping by n is a consistent group action on every time unit and *)
(* cycle.  cyc = one element of one of 42 cyclic types (all elements are   *)
(* enumerated), lin = one sampled (value, a, b) of a linear unit (harness  *)
(* c11.rs).  The laws and ordinal projections are those of Stepping.tla.   *)
(***************************************************************************)
EXTENDS Stepping, TraceIO, TLC

VARIABLES l, nv, nt

Big == 2000000011
StepList(size) == <<0, 1, -1, size, -size, size + 1, -(size + 1), 2 * size + 3, -(2 * size + 3), 1000003, -1000003, Big, -Big>>
Ks == <<-2, -1, 1, 2, 1000>>
Pairs == << <<1, -1>>, <<3, 4>>, <<-3, 5>>, <<1000003, -999999>>, <<-7, -8>> >>

CycClauses(e) ==
  [ index   |-> e.gi = e.i /\ e.i \in 0..(e.size - 1),
    step    |-> Len(e.nx) = 13 /\ \A k \in 1..13 : e.nx[k] = CycStep(e.i, StepList(e.size)[k], e.size),
    wrap    |-> \A k \in 1..5 : e.fx[k] = e.i,
    compose |-> \A k \in 1..5 : e.cmp[2 * k - 1] = e.cmp[2 * k] /\ e.cmp[2 * k] = CycStep(e.i, Pairs[k][1] + Pairs[k][2], e.size),
    (* a name maps back to the first index that carries it (= the index itself when names are unique); unknown names are refused *)
    name    |-> e.nm = -1 \/ (e.nm = e.fi /\ e.fi <= e.i),
    unknown |-> e.unk \in {-1, 1}
  ]

Bad(f) == f = <<-999>>

LinClauses(e) ==
  LET t == e.t
      ok == ~Bad(e.f0) /\ ~Bad(e.fz) /\ ~Bad(e.fa) /\ ~Bad(e.fab) /\ ~Bad(e.fs) /\ ~Bad(e.fr)
  IN
  [ returns  |-> ok,
    zero     |-> ok => e.fz = e.f0,
    compose  |-> ok => e.fab = e.fs,
    inverse  |-> ok => e.fr = e.f0,
    (* a stepped value is indistinguishable from the value its type's constructor builds at that position
       (own fields, pillars and derived views included): stepping carries no state along *)
    canonical |-> ok => e.fca = e.fa /\ e.fcs = e.fs,
    formed   |-> ok => (WellFormed(t, e.f0) /\ WellFormed(t, e.fa) /\ WellFormed(t, e.fs)),
    unit     |-> ok =>
                  CASE HasOrd(t) -> Ord(t, e.fa) = Ord(t, e.f0) + e.a * Unit(t) /\ Ord(t, e.fs) = Ord(t, e.f0) + (e.a + e.b) * Unit(t)
                    [] t \in SecondLike -> <<e.fa[1], e.fa[2]>> = Add(<<e.f0[1], e.f0[2]>>, e.a) /\ <<e.fs[1], e.fs[2]>> = Add(<<e.f0[1], e.f0[2]>>, e.a + e.b)
                    [] t = 122 -> <<e.fa[1], e.fa[2]>> = Add(<<e.f0[1], e.f0[2]>>, 7200 * e.a)
                    [] t = 116 -> (e.a > 0 => e.fa[3] > e.f0[3]) /\ (e.a < 0 => e.fa[3] < e.f0[3]) /\ (e.a = 0 => e.fa = e.f0)
                    [] OTHER -> TRUE,
    pillar   |-> ok =>
                  CASE t = 108 -> e.fa[3] = (e.f0[3] + e.a) % 60
                    [] t = 130 -> (e.fa[2] - e.f0[2]) % 60 \in {e.a % 60, (-e.a) % 60} /\ e.fa[3] = e.f0[3] + 10 * e.a
                    [] t = 131 -> (e.fa[2] - e.f0[2]) % 60 \in {e.a % 60, (-e.a) % 60} /\ e.fa[3] = e.f0[3] + e.a
                    [] OTHER -> TRUE
  ]

Clauses(i) ==
  CASE Rec[i].k = "cyc"   -> CycClauses(Rec[i])
    [] Rec[i].k = "lin"   -> LinClauses(Rec[i])
    [] Rec[i].k = "begin" -> [begin |-> TRUE]
    [] OTHER              -> [kind |-> FALSE]

Failed(i) == LET c == Clauses(i) IN {n \in DOMAIN c : ~c[n]}

Key(i) == LET e == Rec[i] IN
  CASE e.k = "cyc" -> [k |-> "cyc", t |-> e.t, i |-> e.i]
    [] e.k = "lin" -> [k |-> "lin", t |-> e.t, f0 |-> e.f0, a |-> e.a, b |-> e.b]
    [] OTHER       -> [k |-> e.k]

(* non-trivial: every cyclic element (all wrap); linear steps that carry into another year / day or go backwards *)
Nontrivial(i) == LET e == Rec[i] IN
  CASE e.k = "cyc" -> TRUE
    [] e.k = "lin" -> e.a < 0 \/ e.b < 0 \/ (Len(e.fa) >= 1 /\ Len(e.f0) >= 1 /\ e.fa[1] # e.f0[1])
    [] OTHER       -> FALSE

INSTANCE TraceRun WITH Prop <- "C11", NLines <- NRec
=============================================================================
