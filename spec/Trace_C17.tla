------------------------------ MODULE Trace_C17 ------------------------------
(***************************************************************************)
(* C17 — daily and hourly almanac cycles obey their defining recurrences.  *)
(* Events (harness c17.rs): d one civil day, h one double-hour slot of a   *)
(* sampled day, y one year, m one (year, month).  Expected values come     *)
(* from Almanac.tla; consecutive days are also related by the Tick clauses *)
(* (officer +1 inside a sexagenary month, mansion +1, six-day star +1 or   *)
(* restart).  Claimed for civil dates 0001..9998 and years -1..9999.       *)
(***************************************************************************)
EXTENDS Almanac, Civil, TraceIO, TLC

VARIABLES l, nv, nt

InClaim(e) == e.y >= 1 /\ e.y <= 9998
Both(v, x) == v[1] = x /\ v[2] = x

DayClauses(i) ==
  LET e == Rec[i]
      db == Branch(e.p)
      mb == Branch(e.mp)
      hasp == e.s = 0 /\ i > 1 /\ Rec[i - 1].k = "d" /\ Rec[i - 1].j + 1 = e.j /\ Rec[i - 1].p >= 0 /\ e.p >= 0
      p == Rec[i - 1]
      solok == \A k \in 1..4 : e.sol[k] > 0
  IN
  [ civil     |-> Valid(e.y, e.m, e.d) /\ e.j = JDN(e.y, e.m, e.d),
    views    |-> e.p >= 0 /\ e.mp >= 0 /\ e.ly > -9,
    pillar   |-> e.p >= 0 => e.p = Pillar(e.j),
    officer  |-> (e.p >= 0 /\ e.mp >= 0) => Both(e.duty, Officer(db, mb)),
    path     |-> (e.p >= 0 /\ e.mp >= 0) => Both(e.tw, PathSpirit(db, mb)),
    (* the same two through the previous day's already-queried lunar day stepped by one (-2: first day of a segment) *)
    stepped  |-> (e.p >= 0 /\ e.mp >= 0 /\ e.st[1] # -2) => (e.st[1] = Officer(db, mb) /\ e.st[2] = PathSpirit(db, mb)),
    mansion  |-> e.ms[1] = e.ms[2] /\ e.ms[2] \in 0..27 /\ MansionWeekday(e.ms[2]) = e.w /\ e.w = (e.j + 1) % 7,
    sixstar  |-> e.ly > -9 => e.six = SixStar(e.lm, e.ld),
    phase    |-> e.ly > -9 => (e.ph = Phase(e.ld) /\ e.mr = MinorRenDay(e.lm, e.ld)),
    daystar  |-> (solok /\ e.p >= 0) => Both(e.ns, DayStar(e.j, e.sol[1], e.sol[2], e.sol[3], e.sol[4])),
    (* Tick *)
    tickOfficer |-> (hasp /\ e.mp = p.mp) => e.duty[1] = (p.duty[1] + 1) % 12,
    tickJie     |-> (hasp /\ e.mp # p.mp /\ p.mp >= 0 /\ e.mp >= 0) => e.duty[1] = p.duty[1],
    tickMansion |-> hasp => e.ms[2] = (p.ms[2] + 1) % 28,
    tickSix     |-> (hasp /\ e.ly > -9 /\ p.ly > -9) => (IF e.ld = 1 THEN e.six = (AbsI(e.lm) - 1) % 6 ELSE e.six = (p.six + 1) % 6)
  ]

HourClauses(e) ==
  LET hb == Branch(e.hp)
      db == Branch(e.dp)
      solok == \A k \in 2..4 : e.sol[k] > 0
  IN
  [ views    |-> e.dp >= 0 /\ e.hp >= 0,
    slot     |-> e.hp >= 0 => (hb = ((e.hh + 1) \div 2) % 12 /\ e.hi = hb),
    (* the sexagenary view takes the next day's pillar from 23:00; the lunar view keeps its own lunar day (the
       library's own test pins 2011-5-3 23:00 -> Seven Red), so each view is judged with the day it declares *)
    hourstar |-> (solok /\ e.dp >= 0 /\ e.hp >= 0 /\ e.ldp >= 0) =>
                    /\ e.ns[1] = HourStar(Ascending(e.j, e.sol[2], e.sol[3], e.sol[4]), db, hb)
                    /\ e.ns[2] = HourStar(Ascending(e.j, e.sol[2], e.sol[3], e.sol[4]), Branch(e.ldp), hb)
                    /\ e.ldp = Pillar(e.j) /\ e.dp = (IF e.hh = 23 THEN (e.ldp + 1) % 60 ELSE e.ldp),
    path     |-> (e.dp >= 0 /\ e.hp >= 0) => Both(e.tw, PathSpirit(hb, db)),
    (* officer and path spirit of the lunar day an already-queried hour hands out = those of a freshly built day *)
    dayview  |-> e.fd[1] >= 0 => e.hd = e.fd,
    minorren |-> e.lm > -9 => e.mr = MinorRenHour(e.lm, e.ld, ((e.hh + 1) \div 2))
  ]

YearClauses(e) == [ yearstar |-> Both(e.ns, YearStar(e.y)) ]

MonthClauses(e) ==
  [ sexagenary |-> e.smb = (2 + e.o) % 12 /\ e.sms = MonthStar(e.yb, e.smb),
    lunar      |-> e.lmb >= 0 /\ e.lms = MonthStar(e.yb, e.lmb),
    minorren   |-> e.mr = MinorRenMonth(e.o + 1)
  ]

Clauses(i) ==
  LET e == Rec[i] IN
  CASE e.k = "d" -> IF InClaim(e) THEN DayClauses(i) ELSE [outside |-> TRUE]
    [] e.k = "h" -> HourClauses(e)
    [] e.k = "y" -> YearClauses(e)
    [] e.k = "m" -> MonthClauses(e)
    [] OTHER     -> [walk |-> FALSE]

Failed(i) == LET c == Clauses(i) IN {n \in DOMAIN c : ~c[n]}

Key(i) == LET e == Rec[i] IN
  CASE e.k = "d" -> [k |-> "d", y |-> e.y, m |-> e.m, d |-> e.d, n |-> e.y * 10000 + e.m * 100 + e.d]
    [] e.k = "h" -> [k |-> "h", j |-> e.j, hh |-> e.hh]
    [] e.k = "y" -> [k |-> "y", y |-> e.y]
    [] e.k = "m" -> [k |-> "m", y |-> e.y, o |-> e.o]
    [] OTHER     -> [k |-> e.k, at |-> e.at]

(* non-trivial: leap-month days, month starts, Jian days, days around the star turning points, the 23:00 slot,
   late-December hours, Jiazi years *)
Nontrivial(i) == LET e == Rec[i] IN
  CASE e.k = "d" -> e.lm < 0 \/ e.ld = 1 \/ e.duty[1] = 0 \/ e.ns[1] \in {0, 8}
    [] e.k = "h" -> e.hh \in {0, 23} \/ e.j >= e.sol[4]
    [] e.k = "y" -> TRUE
    [] e.k = "m" -> e.o \in {0, 10, 11}
    [] OTHER     -> TRUE

INSTANCE TraceRun WITH Prop <- "C17", NLines <- NRec
=============================================================================
