----------------------------- MODULE YearTurnLaw -----------------------------
(***************************************************************************)
(* TLAPS: the year decision of SixtyCycleHour::from_solar_time             *)
(* (spec/YearTurn.tla, Mode "instant") for UNBOUNDED instants.  The three  *)
(* branches of the code are written as one function of the instant t, the  *)
(* Lichun instant, the first instant lny of lunar year Y and the first     *)
(* instant lny2 of lunar year Y + 1; the law needs exactly one fact about  *)
(* the calendar: lunar year Y + 1 does not begin before Lichun of Y.       *)
(* The day-view variant (seed C16-w7-2) is NOT provable: DayViewFails      *)
(* exhibits the counterexample as a theorem.                               *)
(***************************************************************************)
EXTENDS Integers, TLAPS

LunarOffset(t, lny, lny2) == IF t >= lny2 THEN 1 ELSE IF t >= lny THEN 0 ELSE -1

Decide(ly, before) ==
  IF ly = 0 THEN (IF before THEN ly - 1 ELSE ly)
  ELSE IF ly < 0 THEN (IF ~before THEN ly + 1 ELSE ly)
  ELSE ly - 1

Year(t, lichun, lny, lny2) == Decide(LunarOffset(t, lny, lny2), t < lichun)

THEOREM YearLaw ==
  ASSUME NEW t \in Int, NEW lichun \in Int, NEW lny \in Int, NEW lny2 \in Int,
         lny < lny2, lichun <= lny2
  PROVE  Year(t, lichun, lny, lny2) = IF t < lichun THEN -1 ELSE 0
  BY DEF Year, Decide, LunarOffset

(* the comparison made on civil days (two instants per day) *)
DayYear(t, lichun, lny, lny2) == Decide(LunarOffset(t, lny, lny2), (t \div 2) < (lichun \div 2))

THEOREM DayViewFails ==
  DayYear(2, 3, -4, 48) # (IF 2 < 3 THEN -1 ELSE 0)
  BY DEF DayYear, Decide, LunarOffset
=============================================================================
