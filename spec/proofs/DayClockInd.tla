---------------------------- MODULE DayClockInd ----------------------------
(***************************************************************************)
(* Unbounded safety of the day clock's anchors (C07) as an INDUCTIVE       *)
(* invariant, discharged symbolically with Apalache:                       *)
(*   weekday = (day number + 1) mod 7,  pillar = (day number + 49) mod 60  *)
(* is preserved by Tick (+1 day, +1 mod 7, +1 mod 60) from any day number. *)
(*   apalache-mc check --init=Init    --inv=IndInv --length=0 DayClockInd.tla   (base)  *)
(*   apalache-mc check --init=IndInit --inv=IndInv --length=1 DayClockInd.tla   (step)  *)
(***************************************************************************)
EXTENDS Integers

VARIABLES
  \* @type: Int;
  jdn,
  \* @type: Int;
  wk,
  \* @type: Int;
  pil

IndInv == jdn >= 0 /\ wk = (jdn + 1) % 7 /\ pil = (jdn + 49) % 60

Init == jdn = 1721424 /\ wk = (1721424 + 1) % 7 /\ pil = (1721424 + 49) % 60

(* any state satisfying the invariant *)
IndInit == jdn \in Nat /\ wk \in 0..6 /\ pil \in 0..59 /\ IndInv

Next == jdn' = jdn + 1 /\ wk' = (wk + 1) % 7 /\ pil' = (pil + 1) % 60
=============================================================================
