------------------------------ MODULE CacheInd ------------------------------
(***************************************************************************)
(* Unbounded safety of the repaired memo design (Cache.tla with            *)
(* KeyMode = "delimited", CsMode = "split") as an INDUCTIVE invariant,     *)
(* discharged symbolically with Apalache: for three threads and ANY number *)
(* of calls per thread every completed call answers F(request), the memo   *)
(* only ever holds a valid label under that label's own key, and the lock  *)
(* discipline holds.  (TLC explores the same actions for 2-3 threads and   *)
(* at most 2 calls per thread: MC_Cache.cfg, MC_Cache3.cfg.)               *)
(*                                                                         *)
(* Requests are 1..6 (1..4 valid); the delimited key of a request is the   *)
(* request itself (an injective key), 0 = none.  The memo is a total       *)
(* function with 0 for "absent".                                           *)
(*   apalache-mc check --init=Init    --inv=IndInv --length=0 CacheInd.tla    (base)  *)
(*   apalache-mc check --init=IndInit --inv=IndInv --length=1 CacheInd.tla    (step)  *)
(***************************************************************************)
EXTENDS Integers

Threads == {1, 2, 3}
Reqs == 1..6
ValidReqs == 1..4
NoThread == 0
NoReq == 0
Refused == -1
PCs == {"idle", "acquire", "probe", "construct", "acquire2", "fill", "release"}

F(r) == IF r \in ValidReqs THEN r ELSE Refused

VARIABLES
  \* @type: Int -> Int;
  cache,
  \* @type: Int;
  lock,
  \* @type: Int -> Str;
  pc,
  \* @type: Int -> Int;
  req,
  \* @type: Int -> Int;
  resp,
  \* @type: Int -> Int;
  last

Init ==
  /\ cache = [k \in Reqs |-> 0]
  /\ lock = NoThread
  /\ pc = [t \in Threads |-> "idle"]
  /\ req = [t \in Threads |-> NoReq]
  /\ resp = [t \in Threads |-> NoReq]
  /\ last = [t \in Threads |-> NoReq]

Finish(t, answer) ==
  /\ resp' = [resp EXCEPT ![t] = answer]
  /\ last' = [last EXCEPT ![t] = req[t]]

Call(t, r) ==
  /\ pc[t] = "idle"
  /\ req' = [req EXCEPT ![t] = r]
  /\ pc' = [pc EXCEPT ![t] = "acquire"]
  /\ UNCHANGED <<cache, lock, resp, last>>

Acquire(t) ==
  /\ pc[t] \in {"acquire", "acquire2"} /\ lock = NoThread
  /\ lock' = t
  /\ pc' = [pc EXCEPT ![t] = IF pc[t] = "acquire" THEN "probe" ELSE "fill"]
  /\ UNCHANGED <<cache, req, resp, last>>

Hit(t) ==
  /\ pc[t] = "probe" /\ lock = t
  /\ cache[req[t]] # 0
  /\ Finish(t, cache[req[t]])
  /\ pc' = [pc EXCEPT ![t] = "release"]
  /\ UNCHANGED <<cache, lock, req>>

Miss(t) ==
  /\ pc[t] = "probe" /\ lock = t
  /\ cache[req[t]] = 0
  /\ lock' = NoThread
  /\ pc' = [pc EXCEPT ![t] = "construct"]
  /\ UNCHANGED <<cache, req, resp, last>>

Construct(t) ==
  /\ pc[t] = "construct"
  /\ IF req[t] \in ValidReqs
     THEN /\ pc' = [pc EXCEPT ![t] = "acquire2"]
          /\ UNCHANGED <<cache, lock, req, resp, last>>
     ELSE /\ Finish(t, Refused)
          /\ pc' = [pc EXCEPT ![t] = "idle"]
          /\ UNCHANGED <<cache, lock, req>>

Fill(t) ==
  /\ pc[t] = "fill" /\ lock = t
  /\ cache' = [cache EXCEPT ![req[t]] = req[t]]
  /\ Finish(t, req[t])
  /\ pc' = [pc EXCEPT ![t] = "release"]
  /\ UNCHANGED <<lock, req>>

Release(t) ==
  /\ pc[t] = "release" /\ lock = t
  /\ lock' = NoThread
  /\ pc' = [pc EXCEPT ![t] = "idle"]
  /\ UNCHANGED <<cache, req, resp, last>>

Next == \E t \in Threads :
          \/ \E r \in Reqs : Call(t, r)
          \/ Acquire(t) \/ Hit(t) \/ Miss(t) \/ Construct(t) \/ Fill(t) \/ Release(t)
          \/ UNCHANGED <<cache, lock, pc, req, resp, last>>

-----------------------------------------------------------------------------
TypeOK ==
  /\ cache \in [Reqs -> 0..6]
  /\ lock \in 0..3
  /\ pc \in [Threads -> PCs]
  /\ req \in [Threads -> 0..6]
  /\ resp \in [Threads -> -1..6]
  /\ last \in [Threads -> 0..6]

Correct == \A t \in Threads : last[t] # NoReq => resp[t] = F(last[t])

CacheSound == \A k \in Reqs : cache[k] # 0 => (cache[k] = k /\ k \in ValidReqs)

LockDiscipline == \A t \in Threads :
  /\ pc[t] \in {"probe", "fill", "release"} => lock = t
  /\ pc[t] \in {"idle", "acquire", "construct", "acquire2"} => lock # t

InCall == \A t \in Threads :
  /\ pc[t] # "idle" => req[t] \in Reqs
  /\ pc[t] \in {"acquire2", "fill"} => req[t] \in ValidReqs

IndInv == TypeOK /\ Correct /\ CacheSound /\ LockDiscipline /\ InCall

IndInit == TypeOK /\ IndInv
=============================================================================
