------------------------------ MODULE CivilInd ------------------------------
(***************************************************************************)
(* Symbolic check (Apalache) of the civil calendar's successor law for ALL *)
(* dates at once: for every valid date, Succ is valid (or leaves the       *)
(* range) and the closed-form day number grows by exactly one; Pred undoes *)
(* Succ.  MC_Civil checks the same by walking the chain of 3,652,061 dates *)
(* with TLC; this is the same statement discharged by an SMT solver.       *)
(*   apalache-mc check --init=Init --inv=Inv --length=0 CivilInd.tla       *)
(***************************************************************************)
EXTENDS Civil

VARIABLES
  \* @type: Int;
  cy,
  \* @type: Int;
  cm,
  \* @type: Int;
  cd

Init == cy \in 1..9999 /\ cm \in 1..12 /\ cd \in 1..31 /\ Valid(cy, cm, cd)

Next == UNCHANGED <<cy, cm, cd>>

Inv == LET s == Succ(cy, cm, cd) IN
       (s[1] <= MaxYear) =>
          /\ Valid(s[1], s[2], s[3])
          /\ JDN(s[1], s[2], s[3]) = JDN(cy, cm, cd) + 1
          /\ Pred(s[1], s[2], s[3]) = <<cy, cm, cd>>
          /\ DateLess(<<cy, cm, cd>>, s)
=============================================================================
