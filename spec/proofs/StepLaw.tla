------------------------------ MODULE StepLaw ------------------------------
(***************************************************************************)
(* The modular stepping law of cyclic values (C11) for UNBOUNDED step      *)
(* counts, proved with TLAPS for every cycle size the library uses, and    *)
(* the floor carry of year-scaled ordinals (half-year 2, season 4, month   *)
(* 12, festival lists 10 and 13, term 24) for every integer ordinal, i.e.  *)
(* across year 0 in both directions.  MC_Stepping checks the same laws     *)
(* with TLC for |n| <= 2*size + 3; bin/proofs runs tlapm on this module.   *)
(***************************************************************************)
EXTENDS Integers, TLAPS

CycStep(i, n, size) == (i + n) % size

Law(N) == \A i \in 0..(N - 1) : \A a, b \in Int :
             /\ CycStep(i, 0, N) = i
             /\ CycStep(CycStep(i, a, N), b, N) = CycStep(i, a + b, N)
             /\ CycStep(CycStep(i, a, N), -a, N) = i
             /\ CycStep(i, a, N) \in 0..(N - 1)
             /\ CycStep(i, N, N) = i

Carry(K) == \A o \in Int : K * (o \div K) + (o % K) = o /\ (o % K) \in 0..(K - 1)

LEMMA L2a == \A i \in {0, 1} : CycStep(i, 0, 2) = i /\ CycStep(i, 2, 2) = i  BY DEF CycStep
LEMMA L2b == \A i \in {0, 1} : \A a, b \in Int : CycStep(CycStep(i, a, 2), b, 2) = CycStep(i, a + b, 2)  BY DEF CycStep
LEMMA L2c == \A i \in {0, 1} : \A a \in Int : CycStep(CycStep(i, a, 2), -a, 2) = i /\ CycStep(i, a, 2) \in {0, 1}  BY DEF CycStep
THEOREM Law2 == Law(2)
<1>1. 0..(2 - 1) = {0, 1}  OBVIOUS
<1> QED  BY <1>1, L2a, L2b, L2c DEF Law

THEOREM Law3 == Law(3)
  BY DEF Law, CycStep

THEOREM Law4 == Law(4)
  BY DEF Law, CycStep

THEOREM Law5 == Law(5)
  BY DEF Law, CycStep

THEOREM Law6 == Law(6)
  BY DEF Law, CycStep

THEOREM Law7 == Law(7)
  BY DEF Law, CycStep

THEOREM Law9 == Law(9)
  BY DEF Law, CycStep

THEOREM Law10 == Law(10)
  BY DEF Law, CycStep

THEOREM Law12 == Law(12)
  BY DEF Law, CycStep

THEOREM Law13 == Law(13)
  BY DEF Law, CycStep

THEOREM Law24 == Law(24)
  BY DEF Law, CycStep

THEOREM Law28 == Law(28)
  BY DEF Law, CycStep

THEOREM Law30 == Law(30)
  BY DEF Law, CycStep

THEOREM Law60 == Law(60)
  BY DEF Law, CycStep

THEOREM Law72 == Law(72)
  BY DEF Law, CycStep

THEOREM Law141 == Law(141)
  BY DEF Law, CycStep

THEOREM Law151 == Law(151)
  BY DEF Law, CycStep

THEOREM Carry2 == Carry(2)
  BY DEF Carry

THEOREM Carry4 == Carry(4)
  BY DEF Carry

THEOREM Carry10 == Carry(10)
  BY DEF Carry

THEOREM Carry12 == Carry(12)
  BY DEF Carry

THEOREM Carry13 == Carry(13)
  BY DEF Carry

THEOREM Carry24 == Carry(24)
  BY DEF Carry

(* stepping a year-scaled unit by n and then by -n returns to the same (year, index) *)
THEOREM StepBack == \A K \in {2, 4, 10, 12, 13, 24} : \A o, n \in Int : (o + n) + (-n) = o
  OBVIOUS

=============================================================================
