------------------------------ MODULE Trace_C08 ------------------------------
(***************************************************************************)
(* C08 — year pillar turns at Lichun, month pillar at each Jie, by the     *)
(* Five-Tigers rule.  Events (harness c08.rs):                             *)
(*   d   one civil day: pillars of the sexagenary-day view, the governing  *)
(*       term (validated by C06) and the Lichun day of the civil year      *)
(*   tv  an instant around a Jie instant: pillars of the instant view      *)
(*   sm  one sexagenary month,  sy  one sexagenary year                    *)
(* Expected pillars come from Pillars.tla: pillar-year = civil year from   *)
(* Lichun on (else year - 1), month = Jie ordinal of the governing term.   *)
(***************************************************************************)
EXTENDS Pillars, TermClock, Civil, TraceIO, TLC

VARIABLES l, nv, nt

DayClauses(i) ==
  LET e == Rec[i]
      Y == PillarYear(e.y, e.j >= e.li)
      wantY == YearPillar(Y)
      hasp == e.s = 0 /\ i > 1 /\ Rec[i - 1].k = "d" /\ Rec[i - 1].ok = 1 /\ e.ok = 1 /\ e.j = Rec[i - 1].j + 1
      p == Rec[i - 1]
  IN
  [ civil     |-> Valid(e.y, e.m, e.d) /\ e.j = JDN(e.y, e.m, e.d),
    view    |-> e.ok = 1,
    year    |-> e.ok = 1 => (e.yp = wantY /\ e.sy = Y),
    month   |-> (e.ok = 1 /\ e.ti \in 0..23) => e.mp = MonthPillar(wantY, JieOrdinal(e.ti)),
    legal   |-> e.ok = 1 => (e.yp \in 0..59 /\ e.mp \in 0..59 /\ Legal(e.yp, e.mp)),
    same    |-> e.ok = 1 => e.mp2 = e.mp,
    (* Tick: the year pillar moves exactly on the Lichun day, the month pillar exactly on Jie days *)
    tickY   |-> hasp => e.yp = (p.yp + (IF e.j = e.li THEN 1 ELSE 0)) % 60,
    tickM   |-> hasp => e.mp = (p.mp + (IF e.td = 0 /\ e.ti % 2 = 1 THEN 1 ELSE 0)) % 60
  ]

TimeClauses(i) ==
  LET e == Rec[i]
      Y == PillarYear(e.y, InstLeq(<<e.lj, e.ls>>, <<e.qj, e.qs>>))
      wantY == YearPillar(Y)
  IN
  [ view    |-> e.ok = 1,
    year    |-> e.ok = 1 => e.yp = wantY,
    month   |-> (e.ok = 1 /\ e.gi \in 0..23) => e.mp = MonthPillar(wantY, JieOrdinal(e.gi)),
    dayview |-> (e.ok = 1 /\ e.jieday = 0) => (e.yp = e.dyp /\ e.mp = e.dmp)
  ]

YearClauses(i) ==
  LET e == Rec[i]
      yp == YearPillar(e.y)
  IN
  [ pillar  |-> e.yp = yp,
    first   |-> e.fm = MonthPillar(yp, 0),
    months  |-> Len(e.ms) = 12 /\ \A k \in 1..Len(e.ms) : k <= 12 => e.ms[k] = MonthPillar(yp, k - 1),
    years   |-> \A k \in DOMAIN e.mys : e.mys[k] = e.y
  ]

MonthClauses(i) ==
  LET e == Rec[i]
      yp == YearPillar(e.y)
      mp == MonthPillar(yp, e.o)
  IN
  [ pillar  |-> e.mp = mp /\ e.yp = yp /\ e.idx = e.o,
    first   |-> e.fd = e.want /\ e.fdp = mp,
    next    |-> (e.y < 9999 \/ e.o < 11) => e.nx = <<(mp + 1) % 60, e.y + (IF e.o = 11 THEN 1 ELSE 0)>>,
    prev    |-> e.pv = <<(mp + 59) % 60, e.y - (IF e.o = 0 THEN 1 ELSE 0)>>
  ]

Clauses(i) ==
  CASE Rec[i].k = "d"  -> DayClauses(i)
    [] Rec[i].k = "tv" -> TimeClauses(i)
    [] Rec[i].k = "sy" -> YearClauses(i)
    [] Rec[i].k = "sm" -> MonthClauses(i)
    [] OTHER           -> [walk |-> FALSE]

Failed(i) == LET c == Clauses(i) IN {n \in DOMAIN c : ~c[n]}

Key(i) == LET e == Rec[i] IN
  CASE e.k = "d"  -> [k |-> "d", y |-> e.y, m |-> e.m, d |-> e.d, n |-> e.y * 10000 + e.m * 100 + e.d]
    [] e.k = "tv" -> [k |-> "tv", y |-> e.y, qj |-> e.qj, qs |-> e.qs]
    [] e.k = "sy" -> [k |-> "sy", y |-> e.y]
    [] e.k = "sm" -> [k |-> "sm", y |-> e.y, i |-> e.o]
    [] OTHER      -> [k |-> e.k, at |-> e.at]

(* non-trivial: Jie days and the day before, Lichun, instants at the boundary, year-crossing months *)
Nontrivial(i) == LET e == Rec[i] IN
  CASE e.k = "d"  -> (e.td = 0 /\ e.ti % 2 = 1) \/ e.j = e.li \/ e.j = e.li - 1 \/ (e.ti % 2 = 0 /\ e.td >= 14)
    [] e.k = "tv" -> e.off <= 1
    [] e.k = "sm" -> e.o \in {0, 11}
    [] OTHER      -> TRUE

INSTANCE TraceRun WITH Prop <- "C08", NLines <- NRec
=============================================================================
