SPECIFICATION Spec
CONSTANT Days = 800
INVARIANTS InvBracket InvIndex InvTick InvStep InvYear
CHECK_DEADLOCK FALSE
