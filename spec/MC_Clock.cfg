SPECIFICATION Spec
CONSTANT Depth = 3
INVARIANTS InvValid InvUndo InvDiff InvOrder InvSum InvRound
CHECK_DEADLOCK FALSE
