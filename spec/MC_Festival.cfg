SPECIFICATION Spec
INVARIANTS InvFounding InvInverse InvStep InvNone
CHECK_DEADLOCK FALSE
