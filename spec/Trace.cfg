SPECIFICATION TraceSpec
POSTCONDITION TraceAccepted
CHECK_DEADLOCK FALSE
