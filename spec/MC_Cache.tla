------------------------------ MODULE MC_Cache ------------------------------
(***************************************************************************)
(* Mode A for C10: all interleavings of a few threads over a request       *)
(* alphabet that contains the colliding families of the undelimited key    *)
(* ((1,12)/(11,2) and (1,11)/(11,1)), a leap label and three kinds of      *)
(* invalid request.  MC_Cache.cfg checks the repaired design; the          *)
(* MC_Cache_asfound*.cfg files keep the parameters of the code as found    *)
(* and are EXPECTED TO FAIL (bin/selftest runs them to show the model is   *)
(* sensitive to exactly the two defects).                                  *)
(***************************************************************************)
EXTENDS Cache

MCReqs == { <<1, 12>>, <<11, 2>>, <<1, 11>>, <<11, 1>>, <<2020, -4>>, <<2020, 13>>, <<2021, -4>>, <<10000, 1>> }
MCValid == { <<1, 12>>, <<11, 2>>, <<1, 11>>, <<11, 1>>, <<2020, -4>> }

(* smaller alphabet for the 3-thread configuration *)
MCReqsSmall == { <<1, 12>>, <<11, 2>>, <<2020, 13>> }
MCValidSmall == { <<1, 12>>, <<11, 2>> }

Inv == TypeOK /\ Correct /\ NoContagion /\ KeyInjective /\ CacheSound /\ LockDiscipline
=============================================================================
