------------------------------ MODULE Trace_C16 ------------------------------
(***************************************************************************)
(* C16 — child limit and fortunes follow from birth instant, gender and    *)
(* the next Jie.  cl = one (birth, gender) through ChildLimit and its      *)
(* fortunes, pv = the same birth through one of the three other shipped    *)
(* strategies (harness c16.rs).  Expected values: Fortune.tla.             *)
(***************************************************************************)
EXTENDS Fortune, TraceIO, TLC

VARIABLES l, nv, nt

PL == INSTANCE Pillars

Secs(a, b) == LET d == Diff(a, b) IN IF d[1] > 20000 THEN 2000000000 ELSE d[1] * 86400 + d[2]   \* a <= b; saturating (32-bit)
Six(flat) == [i \in 1..(Len(flat) \div 6) |-> [k \in 1..6 |-> flat[6 * (i - 1) + k]]]
Four(flat) == [i \in 1..(Len(flat) \div 4) |-> [k \in 1..4 |-> flat[4 * (i - 1) + k]]]

LimitClauses(e) ==
  LET birth == <<e.bj, e.bs>>
      fwd == Forward(e.yp % 10, e.man = 1)
      G == IF fwd THEN <<e.njj, e.njs>> ELSE <<e.pjj, e.pjs>>
      sec == IF fwd THEN Secs(birth, G) ELSE Secs(G, birth)
      c == CountsDefault(sec)
      want == EndOf(e.b, c)
      by == e.b[1]
      dec == Six(e.dec)
      fo == Four(e.fo)
  IN
  [ returns   |-> e.ok = 1,
    bracket   |-> e.ok = 1 => (~Less(birth, <<e.pjj, e.pjs>>) /\ Less(birth, <<e.njj, e.njs>>)),
    direction |-> e.ok = 1 => e.fwd = Flag(fwd),
    (* the pillars the direction and the fortunes start from are those of the birth INSTANT: the year turns at the
       Lichun instant (lj, ls) of the civil year, the month is the Jie ordinal of the governing Jie gi *)
    pillars   |-> (e.ok = 1 /\ e.lj > 0 /\ e.gi \in 0..23) =>
                     LET wantY == PL!YearPillar(PL!PillarYear(by, ~Less(birth, <<e.lj, e.ls>>))) IN
                     e.yp = wantY /\ e.mp = PL!MonthPillar(wantY, PL!JieOrdinal(e.gi)),
    counts    |-> e.ok = 1 => e.c = c,
    ends      |-> e.ok = 1 => <<e.ej, e.es>> = want,
    bounds    |-> e.ok = 1 => (~Less(<<e.ej, e.es>>, birth) /\ e.ej - e.bj <= MaxLimitDays /\ e.st = birth),
    ages      |-> e.ok = 1 => e.ages = <<1, IF e.ey - by > 1 THEN e.ey - by ELSE 1, by, e.ey>>,
    decades   |-> e.ok = 1 => \A k \in DOMAIN dec :
                     LET d == dec[k] IN
                     /\ d[1] = k - 1
                     /\ d[2] = DecadePillar(e.mp, fwd, k - 1)
                     /\ d[3] = DecadeStartAge(by, e.ey, k - 1) /\ d[4] = d[3] + 9
                     /\ (e.ey + 10 * (k - 1) + 9 <= 9999 => (d[5] = e.ey + 10 * (k - 1) /\ d[6] = d[5] + 9)),
    yearly    |-> e.ok = 1 => \A k \in DOMAIN fo :
                     LET f == fo[k] IN
                     /\ f[1] = k - 1
                     /\ f[3] = YearlyAge(by, e.ey, k - 1)
                     /\ f[2] = YearlyPillar(e.hp, fwd, f[3])
                     /\ (e.ey + k - 1 <= 9999 => f[4] = e.ey + k - 1)
  ]

ProviderClauses(e) ==
  LET birth == <<e.bj, e.bs>>
      G == <<e.gj, e.gs>>
      later == IF Less(birth, G) THEN G ELSE birth
      sec == IF Less(birth, G) THEN Secs(birth, G) ELSE Secs(G, birth)
      hdRaw == IF Less(birth, G) THEN e.jz - e.bz ELSE e.bz - e.jz
      ddRaw == IF Less(birth, G) THEN e.gj - e.bj ELSE e.bj - e.gj
      hd == IF hdRaw < 0 THEN hdRaw + 12 ELSE hdRaw
      dd == IF hdRaw < 0 THEN ddRaw - 1 ELSE ddRaw
      c == CASE e.p = 1 -> CountsChina95(sec) [] e.p = 2 -> CountsSect1(dd, hd) [] OTHER -> CountsSect2(sec)
  IN
  [ returns |-> e.ok = 1,
    counts  |-> e.ok = 1 => e.c = c,
    ends    |-> e.ok = 1 => <<e.ej, e.es>> = EndOf(e.b, c),
    bounds  |-> e.ok = 1 => (~Less(<<e.ej, e.es>>, birth) /\ e.ej - e.bj <= MaxLimitDays /\ e.st = birth)
  ]

Clauses(i) ==
  CASE Rec[i].k = "cl"    -> LimitClauses(Rec[i])
    [] Rec[i].k = "pv"    -> ProviderClauses(Rec[i])
    [] Rec[i].k = "begin" -> [begin |-> TRUE]
    [] OTHER              -> [kind |-> FALSE]

Failed(i) == LET c == Clauses(i) IN {n \in DOMAIN c : ~c[n]}
Key(i) == LET e == Rec[i] IN
  CASE e.k = "cl" -> [k |-> "cl", bj |-> e.bj, bs |-> e.bs, man |-> e.man]
    [] e.k = "pv" -> [k |-> "pv", p |-> e.p, bj |-> e.bj, bs |-> e.bs]
    [] OTHER      -> [k |-> e.k]

(* non-trivial: limits whose day count spills into another month, births on month ends, births within seconds of a Jie *)
Nontrivial(i) == LET e == Rec[i] IN
  CASE e.k \in {"cl", "pv"} -> e.b[3] >= 28 \/ e.b[3] = 1 \/ (Len(e.c) = 5 /\ e.c[1] = 0 /\ e.c[2] = 0 /\ e.c[3] = 0) \/ (Len(e.c) = 5 /\ e.b[3] + e.c[3] > 28)
    [] OTHER -> FALSE

INSTANCE TraceRun WITH Prop <- "C16", NLines <- NRec
=============================================================================
