------------------------------ MODULE Trace_X02 ------------------------------
(***************************************************************************)
(* X02 (beyond the listed properties) — the rest of the public API; events *)
(* of harness x02.rs, rules of Extras.tla.                                 *)
(***************************************************************************)
EXTENDS Extras, TraceIO

VARIABLES l, nv, nt

Bad == -999

BrClauses(e) ==
  [ halfyear  |-> e.hyY = e.y,
    season    |-> e.seY = e.y,
    (* the week reported for a day is a week of that day's month, and names that month as its own *)
    week      |-> e.wk = <<e.y, e.m, e.y, e.m>>,
    lunarweek |-> e.lmy # Bad => (e.lw = <<e.lmy, e.lmm, e.lmy, e.lmm>>),
    lunarseason |-> e.lmy # Bad => e.ls = SeasonOfMonth(e.lmm)
  ]

HoClauses(e) ==
  LET a == <<e.qa[1], e.qa[2]>>  b == <<e.qb[1], e.qb[2]>> IN
  [ returns |-> e.before \in {0, 1} /\ e.after \in {0, 1} /\ e.eq \in {0, 1},
    before  |-> (e.before = 1) = Before(a, b),
    after   |-> (e.after = 1) = Before(b, a),
    equal   |-> (e.eq = 1) = (a = b)
  ]

DpClauses(e) ==
  [ returns  |-> \A i \in 1..5 : e.a[i] \in 0..59,
    sameview |-> e.a = e.b,
    (* the day view an instant-level value carries is the one its year / month / day getters answer from *)
    hourday  |-> e.hd = <<e.b[3], e.b[4], e.b[5]>>
  ]

JuClauses(e) ==
  [ returns |-> \A x \in {e.jys, e.jyl, e.jms, e.jml, e.jds, e.jdl} : x \in 0..8,
    year    |-> e.jys = JupiterOfYear(e.yp) /\ e.jyl = JupiterOfYear(e.lyp),
    month   |-> e.jms = JupiterOfMonth(e.mp) /\ (e.lmp \in 0..59 => e.jml = JupiterOfMonth(e.lmp)),
    day     |-> e.jds = JupiterOfDay(e.dp, e.yp) /\ (e.ldp \in 0..59 => e.jdl = JupiterOfDay(e.ldp, e.lyp)),
    samepillar |-> e.ldp = e.dp
  ]

Route(r, k) == <<r[4 * k - 3], r[4 * k - 2], r[4 * k - 1], r[4 * k]>>
FdClauses(e) ==
  [ routes |-> Len(e.r) = 20 /\ \A k \in 2..5 : Route(e.r, k) = Route(e.r, 1),
    cycles |-> Len(e.r) = 20 => (e.r[1] = (e.dp % 10) % 5 /\ e.r[2] = (e.dp % 12) % 6 /\ e.r[3] \in {0, 1} /\ e.r[4] \in 0..8)
  ]

DuClauses(e) ==
  [ duty |-> e.duty = DutyOf(e.mp, e.dp),
    sameasday |-> e.dayduty = e.duty
  ]

S2Clauses(e) ==
  [ returns |-> \A i \in 1..4 : e.def[i] \in 0..59 /\ e.s2[i] \in 0..59,
    sect2   |-> e.s2 = Sect2(e.def, e.ldp),
    (* the two strategies differ exactly in the late Zi hour *)
    differ  |-> (e.s2 # e.def) = (e.h = 23)
  ]

FyClauses(e) ==
  LET end == EndLunarYear(e.bly, e.by, e.ey) IN
  [ returns |-> e.ely # Bad /\ e.dsl # Bad /\ e.del # Bad /\ e.fl # Bad,
    limit   |-> e.ely = end,
    decade  |-> e.dsl = end + 10 * e.off /\ e.del = e.dsl + 9,
    yearly  |-> e.fl = end + e.off,
    gender  |-> e.gender = e.asked
  ]

EnumNames(t) ==
  CASE t = "Gender" -> <<"女", "男">> [] t = "Side" -> <<"内", "外">> [] t = "YinYang" -> <<"阴", "阳">>
    [] t = "FestivalType" -> <<"日期", "节气", "除夕">> [] t = "HideHeavenStemType" -> <<"余气", "中气", "本气">>
    [] OTHER -> <<>>
EnClauses(e) ==
  [ codes   |-> e.back = [i \in 1..e.n |-> i - 1],
    byname  |-> e.byname = [i \in 1..e.n |-> i - 1],
    names   |-> e.names = EnumNames(e.t),
    refused |-> e.beyond = 1 /\ e.unknown = 1
  ]

Clauses(i) ==
  CASE Rec[i].k = "br" -> BrClauses(Rec[i]) [] Rec[i].k = "ho" -> HoClauses(Rec[i]) [] Rec[i].k = "dp" -> DpClauses(Rec[i])
    [] Rec[i].k = "ju" -> JuClauses(Rec[i]) [] Rec[i].k = "fd" -> FdClauses(Rec[i]) [] Rec[i].k = "du" -> DuClauses(Rec[i])
    [] Rec[i].k = "s2" -> S2Clauses(Rec[i]) [] Rec[i].k = "fy" -> FyClauses(Rec[i]) [] Rec[i].k = "en" -> EnClauses(Rec[i])
    [] Rec[i].k = "begin" -> [begin |-> TRUE]
    [] OTHER -> [kind |-> FALSE]

Failed(i) == LET c == Clauses(i) IN {n \in DOMAIN c : ~c[n]}

Key(i) == LET e == Rec[i] IN
  CASE e.k \in {"br", "ju"} -> [k |-> e.k, y |-> e.y, m |-> e.m, d |-> e.d]
    [] e.k \in {"dp", "s2"} -> [k |-> e.k, y |-> e.y, m |-> e.m, d |-> e.d, h |-> e.h]
    [] e.k = "ho" -> [k |-> "ho", qa |-> e.qa, qb |-> e.qb]
    [] e.k = "fd" -> [k |-> "fd", dp |-> e.dp]
    [] e.k = "du" -> [k |-> "du", mp |-> e.mp, dp |-> e.dp]
    [] e.k = "fy" -> [k |-> "fy", by |-> e.by, bly |-> e.bly, ey |-> e.ey, off |-> e.off]
    [] e.k = "en" -> [k |-> "en", t |-> e.t]
    [] OTHER -> [k |-> e.k]

Nontrivial(i) == Rec[i].k # "begin"

INSTANCE TraceRun WITH Prop <- "X02", NLines <- NRec
=============================================================================
