------------------------------ MODULE TraceRun ------------------------------
(***************************************************************************)
(* The replay engine shared by every trace specification (Mode B).         *)
(*                                                                         *)
(* The instantiating module reads the NDJSON trace into `Rec`, and states  *)
(* for every line i which named clauses of its design actions are false:   *)
(* Failed(i) (a set of strings; {} = the line conforms), the identifying   *)
(* input Key(i) and whether the line exercised a non-trivial case,         *)
(* Nontrivial(i).  This module turns that into a behaviour: one step per   *)
(* trace line, never blocked by a bad line (total classification: a        *)
(* non-conforming line is reported and the state is re-synchronised from   *)
(* the log, so the REST of the trace is still checked).                    *)
(*                                                                         *)
(*   Conform(i)  ==  Failed(i) = {}                                        *)
(*   Deviate(i)  ==  Failed(i) # {}  /\ report                             *)
(*   Next        ==  Conform(l) \/ Deviate(l),  l' = l + 1                 *)
(*                                                                         *)
(* Acceptance: POSTCONDITION TraceAccepted (every line consumed) and the   *)
(* SUMMARY line printed in the last step.  Run with -workers 1.            *)
(***************************************************************************)
EXTENDS Integers, Sequences, TLC, Json

CONSTANTS Prop,              \* property id, a string
          NLines,            \* Len(Rec)
          Failed(_),         \* line index -> set of failed clause names
          Key(_),            \* line index -> record identifying the input
          Nontrivial(_)      \* line index -> BOOLEAN

VARIABLES l,                 \* next line to consume
          nv,                \* non-conforming lines so far
          nt                 \* non-trivial lines so far

tvars == <<l, nv, nt>>

TraceInit == l = 1 /\ nv = 0 /\ nt = 0

Report(i, f) == PrintT("NONCONF " \o ToJson([p |-> Prop, line |-> i, clauses |-> f, key |-> Key(i)]))

Summary(consumed, bad, nontriv) ==
    PrintT("SUMMARY " \o ToJson([p |-> Prop, consumed |-> consumed, nonconf |-> bad, nontrivial |-> nontriv]))

Conform(i) == Failed(i) = {} /\ nv' = nv

Deviate(i) == LET f == Failed(i) IN f # {} /\ Report(i, f) /\ nv' = nv + 1

TraceNext ==
    /\ l <= NLines
    /\ (Conform(l) \/ Deviate(l))
    /\ nt' = nt + (IF Nontrivial(l) THEN 1 ELSE 0)
    /\ l' = l + 1
    /\ (l = NLines => Summary(l, nv', nt'))

TraceSpec == TraceInit /\ [][TraceNext]_tvars

(* one state per consumed line plus the initial state *)
TraceAccepted ==
    \/ TLCGet("stats").diameter = NLines + 1
    \/ NLines = 0 /\ Summary(0, 0, 0)
=============================================================================
