------------------------------- MODULE TraceIO -------------------------------
(* Reads the NDJSON trace named by the environment variable TRACE. *)
EXTENDS Json, IOUtils, Sequences, Integers

Rec == ndJsonDeserialize(IOEnv.TRACE)
NRec == Len(Rec)

(* b2i for logged 0/1 flags *)
Flag(b) == IF b THEN 1 ELSE 0
=============================================================================
