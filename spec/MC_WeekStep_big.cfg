SPECIFICATION Spec
CONSTANTS
  Lengths <- MCLengths
  NMonths = 4
  MaxStep = 9
INVARIANTS StepLaw Offered
CHECK_DEADLOCK FALSE
