------------------------------ MODULE Trace_C14 ------------------------------
(***************************************************************************)
(* C14 — weeks of a month: seven consecutive days, right start weekday, no *)
(* day lost.  wm = one (civil month, week start), wl = one (lunar month,   *)
(* week start) (harness c14.rs).  Expected values come from Weeks.tla as   *)
(* functions of (first day number, number of existing days, week start);   *)
(* weeks are compared by their first day (a week that straddles a month    *)
(* border has two legal (month, index) representations).                   *)
(***************************************************************************)
EXTENDS Weeks, Civil, TraceIO, TLC

VARIABLES l, nv, nt

WeeksOk(F, L, st, cnt, wf, wd, acc) ==
  LET c == WeekCount(F, L, st) IN
  [ count   |-> cnt = c /\ Len(wf) = c,
    firsts  |-> \A i \in DOMAIN wf : wf[i] = WeekFirstDay(F, st, i - 1),
    weekday |-> \A i \in DOMAIN wf : Weekday(wf[i]) = st,
    seven   |-> Len(wd) = 7 * Len(wf) /\ \A i \in DOMAIN wd : wd[i] = wf[((i - 1) \div 7) + 1] + ((i - 1) % 7),
    cover   |-> \A j \in F..(F + L - 1) : \E i \in DOMAIN wd : wd[i] = j,
    accept  |-> \A i \in DOMAIN acc : acc[i] = (IF i - 1 < c /\ i - 1 <= 5 THEN 1 ELSE 0)
  ]

StepsOk(nx, wf) ==
  \A t \in 0..((Len(nx) \div 3) - 1) :
    LET which == nx[3 * t + 1]  n == nx[3 * t + 2]  r == nx[3 * t + 3]
        from == IF which = 0 THEN wf[1] ELSE wf[Len(wf)]
    IN InRangeJ(NextWeekFirstDay(from, n)) /\ InRangeJ(NextWeekFirstDay(from, n) + 6) => r = NextWeekFirstDay(from, n)

CivilClauses(e) ==
  LET F == JDN(e.y, e.m, 1)
      L == Dim(e.y, e.m)
      base == WeeksOk(F, L, e.st, e.cnt, e.wf, e.wd, e.acc)
      yf == JDN(e.y, 1, 1)
  IN base @@
  [ lists    |-> e.ok = 1,
    index    |-> e.wi = [i \in 1..Len(e.wi) |-> i - 1],
    dates    |-> Len(e.dj) = L /\ \A i \in DOMAIN e.dj : e.dj[i] = F + i - 1,
    weekOf   |-> \A i \in DOMAIN e.dj : /\ e.di[i] = WeekIndexOf(F, e.st, e.dj[i])
                                        /\ e.dw[i] = WeekStartOf(e.dj[i], e.st)
                                        /\ e.dw[i] <= e.dj[i] /\ e.dj[i] <= e.dw[i] + 6,
    step     |-> (e.ok = 1 /\ Len(e.wf) >= 1) => StepsOk(e.nx, e.wf),
    yearindex |-> \A i \in DOMAIN e.iy : i <= Len(e.wf) => e.iy[i] = IndexInYear(e.wf[i], yf, e.st)
  ]

LunarClauses(e) ==
  WeeksOk(e.f, e.n, e.st, e.cnt, e.wf, e.wd, e.acc) @@
  [ lists |-> e.ok = 1,
    step  |-> (e.ok = 1 /\ Len(e.wf) >= 1) => StepsOk(e.nx, e.wf) ]

Clauses(i) ==
  CASE Rec[i].k = "wm" -> CivilClauses(Rec[i])
    [] Rec[i].k = "wl" -> LunarClauses(Rec[i])
    [] OTHER           -> [kind |-> FALSE]

Failed(i) == LET c == Clauses(i) IN {n \in DOMAIN c : ~c[n]}
Key(i) == LET e == Rec[i] IN IF e.k \in {"wm", "wl"} THEN [k |-> e.k, y |-> e.y, m |-> e.m, st |-> e.st] ELSE [k |-> e.k]

(* non-trivial: months whose first day is not the week start (a straddling first week), 6-week and 4-week months, October 1582 *)
Nontrivial(i) == LET e == Rec[i] IN
  IF e.k \in {"wm", "wl"} THEN e.cnt # 5 \/ (Len(e.wf) >= 1 /\ e.wf[1] # (IF e.k = "wm" THEN JDN(e.y, e.m, 1) ELSE e.f)) ELSE TRUE

INSTANCE TraceRun WITH Prop <- "C14", NLines <- NRec
=============================================================================
