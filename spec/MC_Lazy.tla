------------------------------ MODULE MC_Lazy ------------------------------
(***************************************************************************)
(* Mode A for the per-value lazy memos (Lazy.tla): every client program of *)
(* MaxOps operations over two registers.  MC_Lazy.cfg is the shipped       *)
(* design (Step builds a fresh value); MC_Lazy_copy.cfg / _partial.cfg are *)
(* the two realistic wrong designs and are EXPECTED TO FAIL (bin/selftest  *)
(* models).                                                                *)
(***************************************************************************)
EXTENDS Lazy

MCDeltas == {-13, -1, 1, 13, 30}

Inv == AnswerRight /\ MemoSound /\ FillOrder
=============================================================================
