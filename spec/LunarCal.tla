------------------------------ MODULE LunarCal ------------------------------
(***************************************************************************)
(* Structure of the lunisolar calendar (properties C02, C03): months are   *)
(* lunations labelled (year, month) with month in 1..12, negative for a    *)
(* leap month (the library's own convention).  A year has 12 months, or 13 *)
(* when it has a leap month, which directly follows the regular month of   *)
(* the same number.  The astronomy (which day a lunation starts, which     *)
(* month is leap) is NOT modelled: it is an input, bound from the          *)
(* implementation's answers and only related to itself here.               *)
(***************************************************************************)
EXTENDS Integers, Sequences

Abs(x) == IF x < 0 THEN -x ELSE x

(* the labels of a year whose leap month is lp (0 = none), in order *)
YearLabels(lp) ==
    IF lp = 0 THEN [i \in 1..12 |-> i]
    ELSE [i \in 1..13 |-> IF i <= lp THEN i ELSE IF i = lp + 1 THEN -lp ELSE i - 1]

MonthCount(lp) == IF lp = 0 THEN 12 ELSE 13

(* 0-based position of label m in a year with leap month lp *)
IndexInYear(m, lp) ==
    IF m < 0 THEN -m                       \* the leap month sits right after its twin
    ELSE IF lp > 0 /\ m > lp THEN m ELSE m - 1

ValidLabel(m, lp) == (m >= 1 /\ m <= 12) \/ (m < 0 /\ lp > 0 /\ -m = lp)

(* successor label: <<year, month>> after <<y, m>> when year y has leap month lp *)
LabelSucc(y, m, lp) ==
    IF m > 0 THEN IF lp = m THEN <<y, -m>>
                  ELSE IF m < 12 THEN <<y, m + 1>> ELSE <<y + 1, 1>>
    ELSE IF -m < 12 THEN <<y, -m + 1>> ELSE <<y + 1, 1>>

(* without knowing the year's leap month: the label steps a day walk may take at a month end *)
LabelSuccLoose(y, m, y2, m2) ==
    \/ m > 0 /\ m < 12 /\ y2 = y /\ m2 = m + 1
    \/ m > 0 /\ y2 = y /\ m2 = -m
    \/ m < 0 /\ -m < 12 /\ y2 = y /\ m2 = -m + 1
    \/ Abs(m) = 12 /\ y2 = y + 1 /\ m2 = 1

(* chronological order of two lunar dates <<y, m, d>>: the position of a leap month is right after its twin *)
MonthRank(m) == 2 * Abs(m) + (IF m < 0 THEN 1 ELSE 0)
LunarLess(a, b) ==
    \/ a[1] < b[1]
    \/ a[1] = b[1] /\ MonthRank(a[2]) < MonthRank(b[2])
    \/ a[1] = b[1] /\ a[2] = b[2] /\ a[3] < b[3]

MonthLens == {29, 30}
YearLens == {353, 354, 355, 383, 384, 385}

SumSeq(s) ==
    LET RECURSIVE Go(_)
        Go(i) == IF i = 0 THEN 0 ELSE s[i] + Go(i - 1)
    IN Go(Len(s))
=============================================================================
