----------------------------- MODULE MC_Pillars -----------------------------
(* Mode A for C08: walking Jie by Jie through all 60 years reaches exactly the 720 legal pairs, the month
   pillar advances by one per Jie, and the closed forms (Five Tigers, branch = 2 + ordinal) hold in every state. *)
EXTENDS Pillars, TLC, FiniteSets

VARIABLES yp, mp, k

vars == <<yp, mp, k>>

Init == yp = 0 /\ k = 0 /\ mp = MonthPillar(0, 0)

Next == /\ LET n == NextJie(yp, mp, k) IN yp' = n[1] /\ mp' = n[2]
        /\ k' = (k + 1) % 12

Spec == Init /\ [][Next]_vars

InvClosed == mp = MonthPillar(yp, k)
InvTigers == Stem(mp) = (YinStem(Stem(yp)) + k) % 10 /\ Branch(mp) = (2 + k) % 12
InvLegal  == Legal(yp, mp)
InvJia    == (k = 0 /\ Stem(yp) \in {0, 5}) => Stem(mp) = 2      \* Jia / Ji years start with a Bing-Yin month
(* exactly 60 x 12 legal pairs (evaluated once) *)
ASSUME Cardinality({<<a, b>> \in (0..59) \X (0..59) : Legal(a, b)}) = 720
=============================================================================
