------------------------------- MODULE Cycles -------------------------------
(***************************************************************************)
(* The classical correspondence rules of stems, branches and pillars       *)
(* (C19), stated from first principles — never transcribed from the        *)
(* library's literal arrays.  Indices: stems 0..9 (Jia..Gui), branches     *)
(* 0..11 (Zi..Hai), pillars 0..59 (Jiazi..Guihai), elements 0..4 in the    *)
(* generating order Wood, Fire, Earth, Metal, Water, directions by Luoshu  *)
(* number minus one: N 0, SW 1, E 2, SE 3, Centre 4, NW 5, W 6, NE 7, S 8. *)
(***************************************************************************)
EXTENDS Integers, Sequences

N == 0  SW == 1  E == 2  SE == 3  C == 4  NW == 5  W == 6  NE == 7  S == 8
Wood == 0  Fire == 1  Earth == 2  Metal == 3  Water == 4
Yang == 1  Yin == 0

Mod(a, n) == a % n          \* TLA+ % is the mathematical modulus for n > 0

(* ---- five elements ------------------------------------------------------ *)
Generates(a) == Mod(a + 1, 5)          \* Wood -> Fire -> Earth -> Metal -> Water -> Wood
Overcomes(a) == Mod(a + 2, 5)          \* Wood > Earth > Water > Fire > Metal > Wood
GeneratedBy(a) == Mod(a - 1, 5)
OvercomeBy(a) == Mod(a - 2, 5)
ElementDirection == <<E, S, C, W, N>>  \* Wood east, Fire south, Earth centre, Metal west, Water north (1-based by element + 1)
DirectionElement == <<Water, Earth, Wood, Wood, Earth, Metal, Metal, Earth, Fire>>   \* by direction + 1 (Kan water .. Li fire)

(* ---- stems -------------------------------------------------------------- *)
StemElement(s) == s \div 2             \* Jia Yi wood, Bing Ding fire, Wu Ji earth, Geng Xin metal, Ren Gui water
StemPolarity(s) == IF s % 2 = 0 THEN Yang ELSE Yin
StemDirection(s) == ElementDirection[StemElement(s) + 1]

(* trigrams of the rhymes -> direction *)
Gen == NE  Qian == NW  Kun == SW  Li == S  Xun == SE  Kan == N  Zhen == E  Dui == W

(* Joy spirit: Jia Ji at Gen, Yi Geng Qian, Bing Xin Kun, Ding Ren Li, Wu Gui Xun *)
JoyDirection(s) == <<Gen, Qian, Kun, Li, Xun>>[(s % 5) + 1]

(* Yang noble: Jia Wu -> Kun, Gen; Yi Ji -> Kun, Kan; Geng Xin -> Li, Gen; Bing Ding -> Dui, Qian; Ren Gui -> Zhen, Xun *)
YangNoble == <<Kun, Kun, Dui, Qian, Gen, Kan, Li, Gen, Zhen, Xun>>

(* direction (of the eight) in which a branch lies: Zi N; Chou Yin NE; Mao E; Chen Si SE; Wu S; Wei Shen SW; You W; Xu Hai NW *)
BranchEightDir == <<N, NE, NE, E, SE, SE, S, SW, SW, W, NW, NW>>
Zi == 0  Chou == 1  Yin3 == 2  Mao == 3  Chen == 4  Si == 5  Wu7 == 6  Wei == 7  Shen == 8  You == 9  Xu == 10  Hai == 11

(* Yin noble: Jia Wu see ox and sheep; Yi Ji rat and monkey; Bing Ding pig and rooster; Ren Gui snake and rabbit; Geng Xin tiger and horse *)
YinNobleBranch == <<Chou, Zi, Hai, You, Wei, Shen, Yin3, Wu7, Si, Mao>>
YinNoble(s) == BranchEightDir[YinNobleBranch[s + 1] + 1]

(* Wealth: Jia Yi NE, Bing Ding SW, Wu Ji N, Geng Xin E, Ren Gui S *)
WealthDirection(s) == <<NE, SW, N, E, S>>[(s \div 2) + 1]

(* Fortune (mascot): Jia Yi SE, Bing Ding E, Wu N, Ji S, Geng Xin Kun, Ren Qian, Gui W *)
MascotDirection == <<SE, SE, E, E, N, S, Kun, Kun, Qian, W>>

(* twelve growth stages 0 = birth (Changsheng) .. 11: forward from the birth branch for Yang stems, backward for Yin *)
BirthBranch == <<Hai, Wu7, Yin3, You, Yin3, You, Si, Zi, Shen, Mao>>
Terrain(s, b) == IF StemPolarity(s) = Yang THEN Mod(b - BirthBranch[s + 1], 12) ELSE Mod(BirthBranch[s + 1] - b, 12)

(* ten stars of stem t seen from stem s: 0 Bijian 1 Jiecai 2 Shishen 3 Shangguan 4 Piancai 5 Zhengcai 6 Qisha 7 Zhengguan
   8 Pianyin 9 Zhengyin.  Relation of the elements: same / I generate / I overcome / overcomes me / generates me,
   then same (even) or opposite (odd) polarity. *)
Relation(me, other) ==
    IF other = me THEN 0
    ELSE IF other = Generates(me) THEN 1
    ELSE IF other = Overcomes(me) THEN 2
    ELSE IF me = Overcomes(other) THEN 2
    ELSE IF other = OvercomeBy(me) THEN 3
    ELSE 4
TenStar(s, t) ==
    LET me == StemElement(s)
        ot == StemElement(t)
        rel == IF ot = me THEN 0
               ELSE IF ot = Generates(me) THEN 1
               ELSE IF ot = Overcomes(me) THEN 2
               ELSE IF me = Overcomes(ot) THEN 3
               ELSE 4
    IN 2 * rel + (IF StemPolarity(s) = StemPolarity(t) THEN 0 ELSE 1)

(* five combinations Jia-Ji earth, Yi-Geng metal, Bing-Xin water, Ding-Ren wood, Wu-Gui fire *)
StemCombine(s) == Mod(s + 5, 10)
StemCombineElement(s) == <<Earth, Metal, Water, Wood, Fire>>[(s % 5) + 1]

(* ---- branches ----------------------------------------------------------- *)
BranchElement == <<Water, Earth, Wood, Wood, Earth, Fire, Fire, Earth, Metal, Metal, Earth, Water>>
BranchPolarity(b) == IF b % 2 = 0 THEN Yang ELSE Yin
BranchDirection(b) == ElementDirection[BranchElement[b + 1] + 1]

(* hidden stems <<main, middle, residual>>, -1 = none: Zi Gui; Chou Ji Gui Xin; Yin Jia Bing Wu; Mao Yi; Chen Wu Yi Gui;
   Si Bing Geng Wu; Wu Ding Ji; Wei Ji Ding Yi; Shen Geng Ren Wu; You Xin; Xu Wu Xin Ding; Hai Ren Jia *)
Jia == 0  Yi == 1  Bing == 2  Ding == 3  WuS == 4  Ji == 5  Geng == 6  Xin == 7  Ren == 8  Gui == 9
Hidden == << <<Gui, -1, -1>>, <<Ji, Gui, Xin>>, <<Jia, Bing, WuS>>, <<Yi, -1, -1>>, <<WuS, Yi, Gui>>, <<Bing, Geng, WuS>>,
             <<Ding, Ji, -1>>, <<Ji, Ding, Yi>>, <<Geng, Ren, WuS>>, <<Xin, -1, -1>>, <<WuS, Xin, Ding>>, <<Ren, Jia, -1>> >>

BranchOpposite(b) == Mod(b + 6, 12)                    \* six clashes
(* six combinations Zi-Chou, Yin-Hai, Mao-Xu, Chen-You, Si-Shen, Wu-Wei: the pair sums to 1 mod 12 *)
BranchCombine(b) == Mod(1 - b, 12)
BranchCombineElement == <<Earth, Earth, Wood, Fire, Metal, Water, Earth, Earth, Water, Metal, Fire, Wood>>
(* six harms Zi-Wei, Chou-Wu, Yin-Si, Mao-Chen, Shen-Hai, You-Xu: the pair sums to 7 mod 12 *)
BranchHarm(b) == Mod(7 - b, 12)
(* Sha: Si You Chou east; Hai Mao Wei west; Shen Zi Chen south; Yin Wu Xu north *)
BranchOminous(b) == <<S, E, N, W>>[(b % 4) + 1]

(* ---- pillars ------------------------------------------------------------ *)
PStem(p) == p % 10
PBranch(p) == p % 12
(* Nayin element: stem pair number (Jia Yi 1 .. Ren Gui 5) + branch pair number (Zi Chou Wu Wei 1, Yin Mao Shen You 2,
   Chen Si Xu Hai 3), minus 5 if above 5: 1 wood, 2 metal, 3 water, 4 fire, 5 earth *)
NayinElement(p) ==
    LET a == (PStem(p) \div 2) + 1
        b == ((PBranch(p) \div 2) % 3) + 1
        v == IF a + b > 5 THEN a + b - 5 ELSE a + b
    IN <<Wood, Metal, Water, Fire, Earth>>[v]
NayinIndex(p) == p \div 2
(* decade (Xun) 0 Jiazi .. 5 Jiayin and its two void branches *)
XunOf(p) == p \div 10
VoidBranches(p) == <<Mod(10 - 2 * XunOf(p), 12), Mod(11 - 2 * XunOf(p), 12)>>

(* ---- zodiac signs: first day of each sign as month*100+day, sign 0 = Aries ... 11 = Pisces -------------- *)
SignStart == <<321, 420, 521, 622, 723, 823, 923, 1024, 1123, 1222, 120, 219>>
Sign(m, d) ==
    LET v == m * 100 + d IN
    IF v >= 1222 \/ v < 120 THEN 9
    ELSE IF v >= 120 /\ v < 219 THEN 10
    ELSE IF v >= 219 /\ v < 321 THEN 11
    ELSE CHOOSE k \in 0..8 : v >= SignStart[k + 1] /\ v < SignStart[k + 2]

(* ---- foetus spirit ------------------------------------------------------ *)
(* day stem: Jia Ji door 0, Yi Geng mortar-mill 1, Bing Xin kitchen-stove 2, Ding Ren granary 3, Wu Gui room-bed 4 *)
FetusStem(s) == s % 5
(* day branch: Zi Wu mortar 0, Chou Wei privy 1, Yin Shen furnace 2, Mao You door 3, Chen Xu roost 4, Si Hai bed 5 *)
FetusBranch(b) == b % 6
(* position through the sixty days as runs <<count, side (1 outside / 0 inside the room), direction>> *)
FetusRuns == << <<2, 1, SE>>, <<5, 1, S>>, <<6, 1, SW>>, <<5, 1, W>>, <<6, 1, NW>>, <<5, 1, N>>, <<5, 0, N>>, <<2, 0, C>>,
                <<3, 0, S>>, <<1, 0, W>>, <<4, 0, E>>, <<1, 0, C>>, <<6, 1, NE>>, <<5, 1, E>>, <<4, 1, SE>> >>
RECURSIVE RunAt(_, _, _)
RunAt(p, k, acc) == IF p < acc + FetusRuns[k][1] THEN k ELSE RunAt(p, k + 1, acc + FetusRuns[k][1])
FetusSide(p) == FetusRuns[RunAt(p, 1, 0)][2]
FetusDirection(p) == FetusRuns[RunAt(p, 1, 0)][3]

(* ---- twenty-eight mansions (0 = Jiao) ----------------------------------- *)
(* luminary in the order Sun 0, Moon 1, Fire 2, Water 3, Wood 4, Metal 5, Earth 6: Jiao wood, Kang metal, Di earth, Fang sun,
   Xin moon, Wei fire, Ji water, and so on by sevens *)
MansionLuminary(i) == <<4, 5, 6, 0, 1, 2, 3>>[(i % 7) + 1]
(* quadrant 0 east (Jiao..Ji) 1 north (Dou..Bi) 2 west (Kui..Shen) 3 south (Jing..Zhen) *)
MansionZone(i) == i \div 7
(* nine fields, as direction index of the field: centre Jiao Kang Di; east Fang Xin Wei; north-east Ji Dou Niu; north Nv Xu Wei Shi;
   north-west Bi Kui Lou; west Wei Mao Bi; south-west Zi Shen Jing; south Gui Liu Xing; south-east Zhang Yi Zhen *)
MansionFieldRuns == << <<3, C>>, <<3, E>>, <<3, NE>>, <<4, N>>, <<3, NW>>, <<3, W>>, <<3, SW>>, <<3, S>>, <<3, SE>> >>
RECURSIVE FieldAt(_, _, _)
FieldAt(i, k, acc) == IF i < acc + MansionFieldRuns[k][1] THEN MansionFieldRuns[k][2] ELSE FieldAt(i, k + 1, acc + MansionFieldRuns[k][1])
MansionField(i) == FieldAt(i, 1, 0)
(* auspicious 0 / ominous 1 *)
MansionLuck == <<0, 1, 1, 0, 1, 0, 0,  0, 1, 1, 1, 1, 0, 0,  1, 0, 0, 1, 0, 1, 0,  0, 1, 1, 1, 0, 1, 0>>
(* weekday of a day governed by mansion i (luminary = weekday: Sun Sunday 0, Moon 1, Fire 2, Water 3, Wood 4, Metal 5, Earth 6) *)
MansionWeekday(i) == MansionLuminary(i)

(* ---- nine stars (0 = One White) ---------------------------------------- *)
NineStarElement == <<Water, Earth, Wood, Wood, Earth, Metal, Metal, Earth, Fire>>
NineStarDirection(i) == i
(* colour class: 0 white, 1 black, 2 jade, 3 green, 4 yellow, 5 red, 6 purple *)
NineStarColour == <<0, 1, 2, 3, 4, 0, 5, 0, 6>>

(* ---- twelve spirits of the Yellow / Black path (0 = Azure Dragon) -------- *)
TwelveStarBlack == <<0, 0, 1, 1, 0, 0, 1, 0, 1, 1, 0, 1>>

(* ---- minor Liu Ren (0 = Da'an) ------------------------------------------ *)
MinorRenLuck(i) == i % 2
MinorRenElement == <<Wood, Water, Fire, Metal, Wood, Earth>>

(* ---- eight-character derived signs -------------------------------------- *)
PillarOf(s, b) == CHOOSE p \in 0..59 : p % 10 = s /\ p % 12 = b
TigerStem(ys, b) == Mod(2 * (ys % 5) + 2 + Mod(b - 2, 12), 10)      \* stem of the month with branch b in a year of stem ys
FetalOrigin(mp) == PillarOf(Mod(PStem(mp) + 1, 10), Mod(PBranch(mp) + 3, 12))
FetalBreath(dp) == PillarOf(StemCombine(PStem(dp)), BranchCombine(PBranch(dp)))
(* own sign: count the birth month backwards from Zi (Yin month = 1), then the birth hour forwards to Mao *)
OwnSignBranch(mb, hb) == Mod(4 - Mod(mb - 1, 12) - hb, 12)
=============================================================================
