------------------------------ MODULE YearTurn ------------------------------
(***************************************************************************)
(* C08 / C09 / C16 — how SixtyCycleHour::from_solar_time decides the       *)
(* sexagenary YEAR and MONTH of an instant (src/tyme/sixtycycle.rs), as a  *)
(* transition system over one abstract civil year Y.                       *)
(*                                                                         *)
(* The code does not compare the instant with Lichun directly: it takes    *)
(* the LUNAR year of the instant's lunar day and corrects it,              *)
(*                                                                         *)
(*   ly = lunar year of t                                          (Lunar) *)
(*   ly = Y     : before Lichun(Y) -> ly - 1                       (Same)  *)
(*   ly < Y     : not before Lichun(Y) -> ly + 1                   (Behind)*)
(*   ly > Y     : ly - 1   (AD 10-22: the lunar year turns in December)    *)
(*                                                                 (Ahead) *)
(*   index = term index - 3; if index < 0 and the governing term's instant *)
(*   is after Lichun(Y) then index += 24; month = index div 2      (Month) *)
(*                                                                         *)
(* The abstract year has Days days of two half-days; Lichun, the lunar new *)
(* year (possibly before the civil year starts) and, in the reform era, a  *)
(* second lunar new year in the last days of the civil year are placed     *)
(* freely.  The 24 terms follow Lichun one day apart (term i at            *)
(* lichun + 2(i-3)), so that the term of index 0 of the NEXT cycle falls   *)
(* inside the civil year, as the winter solstice does.                     *)
(*                                                                         *)
(* Properties:  YearLaw   the year is Y from the Lichun INSTANT on, Y - 1  *)
(*                        before it;                                       *)
(*              MonthLaw  the month ordinal counted from the month of      *)
(*                        Lichun(Y) is the number of Jie instants passed   *)
(*                        since Lichun (negative before it).               *)
(* Mode: "instant" is the shipped code.  Expected to fail:                 *)
(*   "month"    "January is before Lichun, March.. after": seed C16-w7-3   *)
(*   "dayview"  the comparison made on civil days: seed C16-w7-2           *)
(*   "noahead"  no third branch: the code as found before fix 7ef26d1      *)
(***************************************************************************)
EXTENDS Integers

CONSTANTS Days,      \* days of the abstract year (two instants each)
          JanDays,   \* days of "January"; "February" has as many
          Mode

VARIABLES t,         \* the instant asked about, 0 .. 2*Days - 1
          lichun,    \* instant of Lichun(Y)
          lny,       \* first instant of lunar year Y (may be negative: it began before the civil year)
          lny2,      \* first instant of lunar year Y + 1 inside this civil year, or 2*Days if there is none
          ly,        \* the code's lunar_year, as an offset from Y
          mo,        \* the code's month ordinal
          pc

vars == <<t, lichun, lny, lny2, ly, mo, pc>>

Last == 2 * Days - 1
DayOf(x) == x \div 2
MonthOf(x) == IF DayOf(x) < JanDays THEN 1 ELSE IF DayOf(x) < 2 * JanDays THEN 2 ELSE 3

TermAt(i) == lichun + 2 * (i - 3)                         \* i in 0..24; 24 is index 0 of the next cycle
Governing == CHOOSE i \in -1..24 : (i = -1 \/ TermAt(i) <= t) /\ (i = 24 \/ TermAt(i + 1) > t)

Before ==
  CASE Mode = "month"   -> MonthOf(t) < 2 \/ (MonthOf(t) = 2 /\ t < lichun)
    [] Mode = "dayview" -> DayOf(t) < DayOf(lichun)
    [] OTHER            -> t < lichun

Init ==
  /\ t \in 0..Last
  /\ lichun \in 2..(4 * JanDays - 1)                      \* anywhere in "January" (from its second day) or "February"
  /\ lny \in (-4)..(6 * JanDays)                          \* a lunar new year before, around or after Lichun; day boundary
  /\ lny % 2 = 0
  /\ lny2 \in {2 * Days} \cup {x \in (Last - 5)..Last : x % 2 = 0}
  /\ ly = 0 /\ mo = 0
  /\ pc = "lunar"

Lunar ==
  /\ pc = "lunar"
  /\ ly' = IF t >= lny2 THEN 1 ELSE IF t >= lny THEN 0 ELSE -1
  /\ pc' = "year"
  /\ UNCHANGED <<t, lichun, lny, lny2, mo>>

Same ==
  /\ pc = "year" /\ ly = 0
  /\ ly' = IF Before THEN ly - 1 ELSE ly
  /\ pc' = "month"
  /\ UNCHANGED <<t, lichun, lny, lny2, mo>>

Behind ==
  /\ pc = "year" /\ ly < 0
  /\ ly' = IF ~Before THEN ly + 1 ELSE ly
  /\ pc' = "month"
  /\ UNCHANGED <<t, lichun, lny, lny2, mo>>

Ahead ==
  /\ pc = "year" /\ ly > 0
  /\ ly' = IF Mode = "noahead" THEN ly ELSE ly - 1
  /\ pc' = "month"
  /\ UNCHANGED <<t, lichun, lny, lny2, mo>>

Month ==
  /\ pc = "month"
  /\ LET g == Governing
         gi == IF g = 24 THEN 0 ELSE IF g = -1 THEN 23 ELSE g        \* the term object's own index
         gt == IF g = -1 THEN TermAt(0) - 2 ELSE TermAt(g)              \* and its instant
         index == gi - 3
         idx == IF index < 0 /\ gt > lichun THEN index + 24 ELSE index
     IN mo' = idx \div 2
  /\ pc' = "done"
  /\ UNCHANGED <<t, lichun, lny, lny2, ly>>

Next == Lunar \/ Same \/ Behind \/ Ahead \/ Month

Spec == Init /\ [][Next]_vars

-----------------------------------------------------------------------------
YearLaw == pc \in {"month", "done"} => ly = (IF t < lichun THEN -1 ELSE 0)

Jie == {i \in 0..24 : i % 2 = 1}
MonthLaw == (pc = "done" /\ Governing \in 0..24) =>
  mo = IF t >= lichun THEN (LET c == {i \in Jie : TermAt(i) >= lichun /\ TermAt(i) <= t} IN
                            IF c = {} THEN 0 ELSE (CHOOSE i \in c : \A x \in c : x <= i) \div 2 - 1)
       ELSE IF TermAt(1) <= t THEN -1 ELSE -2
=============================================================================
