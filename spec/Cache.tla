------------------------------- MODULE Cache -------------------------------
(***************************************************************************)
(* C10 — the lunar-month memo behind LunarMonth::from_ym, as a transition  *)
(* system.  One action per step of the critical section of the code:       *)
(*                                                                         *)
(*   Call      a thread starts from_ym(y, m)                                *)
(*   Acquire   LUNAR_MONTH_CACHE.lock().unwrap()  (panics when poisoned)   *)
(*   Hit/Miss  map.get(&key)                                               *)
(*   Construct LunarMonth::new(y, m): returns the month or refuses         *)
(*   Fill      map.insert(key, 5-tuple)                                    *)
(*   Release   the guard is dropped                                        *)
(*                                                                         *)
(* Two parameters describe how the code does it (so that both the as-found *)
(* and the repaired implementation are instances of ONE specification):    *)
(*   KeyMode = "concat"     key = year || month          (as found)        *)
(*             "delimited"  key = year || "_" || month   (repaired)        *)
(*   CsMode  = "unwrap-inside"  the constructor's unwrap() runs while the   *)
(*                              lock is held: a refusal poisons the lock   *)
(*             "split"          probe and fill are two short critical      *)
(*                              sections, the constructor runs unlocked    *)
(*                                                                         *)
(* The abstract truth is F(r) = r for a valid request (a month is          *)
(* identified by its label) and Refused otherwise.  The property: every    *)
(* completed call returns F(request), whatever happened before and         *)
(* whatever runs concurrently.                                             *)
(***************************************************************************)
EXTENDS Integers, Sequences, FiniteSets, TLC

CONSTANTS Threads,        \* set of thread ids
          Reqs,           \* set of requests <<year, month>>
          ValidReqs,      \* subset of Reqs the constructor accepts
          MaxCalls,       \* calls per thread
          KeyMode, CsMode

ASSUME ValidReqs \subseteq Reqs
ASSUME KeyMode \in {"concat", "delimited"}
ASSUME CsMode \in {"unwrap-inside", "split"}

NoThread == 0
Refused  == <<-99, 0>>     \* the call returned Err / panicked on its own argument
Poison   == <<-98, 0>>     \* the call panicked because the lock was poisoned
NoReq    == <<-97, 0>>

KeyOf(r) == IF KeyMode = "concat" THEN ToString(r[1]) \o ToString(r[2])
            ELSE ToString(r[1]) \o "_" \o ToString(r[2])

F(r) == IF r \in ValidReqs THEN r ELSE Refused

VARIABLES cache,      \* [key -> stored month label]
          lock,       \* holder of the memo lock, or NoThread
          poisoned,   \* the mutex is poisoned
          pc,         \* [thread -> control state]
          req,        \* [thread -> current request]
          resp,       \* [thread -> response of the last completed call]
          last,       \* [thread -> request of the last completed call]
          calls       \* [thread -> completed calls]

vars == <<cache, lock, poisoned, pc, req, resp, last, calls>>

Init ==
    /\ cache = <<>>
    /\ lock = NoThread
    /\ poisoned = FALSE
    /\ pc = [t \in Threads |-> "idle"]
    /\ req = [t \in Threads |-> NoReq]
    /\ resp = [t \in Threads |-> NoReq]
    /\ last = [t \in Threads |-> NoReq]
    /\ calls = [t \in Threads |-> 0]

Finish(t, answer) ==
    /\ resp' = [resp EXCEPT ![t] = answer]
    /\ last' = [last EXCEPT ![t] = req[t]]
    /\ calls' = [calls EXCEPT ![t] = @ + 1]

Call(t, r) ==
    /\ pc[t] = "idle" /\ calls[t] < MaxCalls
    /\ req' = [req EXCEPT ![t] = r]
    /\ pc' = [pc EXCEPT ![t] = "acquire"]
    /\ UNCHANGED <<cache, lock, poisoned, resp, last, calls>>

(* lock().unwrap(): a poisoned mutex makes every later caller panic *)
Acquire(t) ==
    /\ pc[t] \in {"acquire", "acquire2"} /\ lock = NoThread
    /\ IF poisoned
       THEN /\ Finish(t, Poison)
            /\ pc' = [pc EXCEPT ![t] = "idle"]
            /\ UNCHANGED <<cache, lock, poisoned, req>>
       ELSE /\ lock' = t
            /\ pc' = [pc EXCEPT ![t] = IF pc[t] = "acquire" THEN "probe" ELSE "fill"]
            /\ UNCHANGED <<cache, poisoned, req, resp, last, calls>>

Hit(t) ==
    /\ pc[t] = "probe" /\ lock = t
    /\ KeyOf(req[t]) \in DOMAIN cache
    /\ Finish(t, cache[KeyOf(req[t])])
    /\ pc' = [pc EXCEPT ![t] = "release"]
    /\ UNCHANGED <<cache, lock, poisoned, req>>

Miss(t) ==
    /\ pc[t] = "probe" /\ lock = t
    /\ KeyOf(req[t]) \notin DOMAIN cache
    /\ IF CsMode = "split"
       THEN lock' = NoThread      \* first critical section ends before the constructor runs
       ELSE lock' = lock
    /\ pc' = [pc EXCEPT ![t] = "construct"]
    /\ UNCHANGED <<cache, poisoned, req, resp, last, calls>>

(* LunarMonth::new(y, m).unwrap() *)
Construct(t) ==
    /\ pc[t] = "construct"
    /\ (CsMode = "unwrap-inside" => lock = t)
    /\ IF req[t] \in ValidReqs
       THEN /\ pc' = [pc EXCEPT ![t] = IF CsMode = "split" THEN "acquire2" ELSE "fill"]
            /\ UNCHANGED <<cache, lock, poisoned, req, resp, last, calls>>
       ELSE \* refusal: the panic unwinds through the guard (if held) and poisons the mutex
            /\ Finish(t, Refused)
            /\ pc' = [pc EXCEPT ![t] = "idle"]
            /\ IF CsMode = "unwrap-inside"
               THEN poisoned' = TRUE /\ lock' = NoThread
               ELSE UNCHANGED <<poisoned, lock>>
            /\ UNCHANGED <<cache, req>>

Fill(t) ==
    /\ pc[t] = "fill" /\ lock = t
    /\ cache' = (KeyOf(req[t]) :> req[t]) @@ cache
    /\ Finish(t, req[t])
    /\ pc' = [pc EXCEPT ![t] = "release"]
    /\ UNCHANGED <<lock, poisoned, req>>

Release(t) ==
    /\ pc[t] = "release" /\ lock = t
    /\ lock' = NoThread
    /\ pc' = [pc EXCEPT ![t] = "idle"]
    /\ UNCHANGED <<cache, poisoned, req, resp, last, calls>>

Step(t) == \/ \E r \in Reqs : Call(t, r)
           \/ Acquire(t) \/ Hit(t) \/ Miss(t) \/ Construct(t) \/ Fill(t) \/ Release(t)

Next == \E t \in Threads : Step(t)

Spec == Init /\ [][Next]_vars /\ \A t \in Threads : WF_vars(Acquire(t) \/ Hit(t) \/ Miss(t) \/ Construct(t) \/ Fill(t) \/ Release(t))

-----------------------------------------------------------------------------
(* Properties *)

TypeOK ==
    /\ lock \in Threads \cup {NoThread}
    /\ poisoned \in BOOLEAN
    /\ \A t \in Threads : pc[t] \in {"idle", "acquire", "probe", "construct", "acquire2", "fill", "release"}

(* C10: every completed call answered F(its request) *)
Correct == \A t \in Threads : last[t] # NoReq => resp[t] = F(last[t])

(* a refusal never breaks a later valid request (special case of Correct, named for the report) *)
NoContagion == \A t \in Threads : (last[t] \in ValidReqs) => resp[t] # Poison

(* the memo never stores a month under a key that another valid label maps to *)
KeyInjective == \A k \in DOMAIN cache : \A r \in ValidReqs : KeyOf(r) = k => cache[k] = r

(* what a correct memo holds: exactly the labels it was filled with *)
CacheSound == \A k \in DOMAIN cache : cache[k] \in ValidReqs /\ KeyOf(cache[k]) = k

LockDiscipline == \A t \in Threads :
    /\ pc[t] \in {"probe", "fill", "release"} => lock = t
    /\ (CsMode = "unwrap-inside" /\ pc[t] = "construct") => lock = t
    /\ pc[t] \in {"idle", "acquire", "acquire2"} => lock # t

(* every started call completes (no thread waits for the lock forever) *)
Termination == \A t \in Threads : (pc[t] # "idle") ~> (pc[t] = "idle")
=============================================================================
