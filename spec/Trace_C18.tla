------------------------------ MODULE Trace_C18 ------------------------------
(***************************************************************************)
(* C18 — almanac lookup tables are total and well-formed for every pillar  *)
(* pair.  Events (harness c18.rs): tb raw row structure; dg / dt / ht one  *)
(* Lookup per pair (API result, the same pair queried again in the         *)
(* opposite order, the record decoded independently from the raw table);   *)
(* god the luck class; via the same lists through day / hour objects;      *)
(* kg the kitchen-god numbers of one lunar year.                           *)
(***************************************************************************)
EXTENDS AlmanacTables, TraceIO, TLC

VARIABLES l, nv, nt

Clauses(i) ==
  LET e == Rec[i] IN
  CASE e.k = "tb" ->
         [ rows   |-> IF e.t = 0 THEN e.lead = 1 /\ RowHeadsOk(e.heads)
                      ELSE e.n >= 60 /\ Len(e.heads) = 60 /\ \A j \in DOMAIN e.heads : e.heads[j] = 2 ]
    [] e.k = "dg" ->
         [ total     |-> e.ok = 1,
           spirits   |-> e.ok = 1 => SpiritsOk(e.g, e.r),
           luck      |-> Len(e.luck) = Len(e.g) /\ \A j \in DOMAIN e.g : j \in DOMAIN e.luck => e.luck[j] = SpiritLuck(e.g[j]),
           repeat    |-> e.g2 = e.g ]
    [] e.k \in {"dt", "ht"} ->
         [ total      |-> e.ok = 1,
           activities |-> e.ok = 1 => ActivitiesOk(e.a, e.b, e.ra, e.rb),
           repeat     |-> e.a2 = e.a /\ e.b2 = e.b ]
    [] e.k = "god" ->
         [ luck |-> e.luck = SpiritLuck(e.i) /\ e.gi = e.i,
           size |-> e.size = SpiritCount /\ e.tsize = ActivityCount ]
    [] e.k = "via" ->
         [ dayGods   |-> e.g1 = e.wg /\ e.g2 = e.wg /\ e.g3 = e.wg /\ Len(e.wg) >= 1 /\ InList(e.wg, SpiritCount),
           dayTaboo  |-> e.a1 = e.wa /\ e.a2 = e.wa /\ e.a3 = e.wa /\ e.b1 = e.wb /\ e.b2 = e.wb /\ e.b3 = e.wb /\ InList(e.wa, ActivityCount) /\ InList(e.wb, ActivityCount),
           hourTaboo |-> e.ha1 = e.wha /\ e.ha2 = e.wha /\ e.hb1 = e.whb /\ e.hb2 = e.whb /\ InList(e.wha, ActivityCount) /\ InList(e.whb, ActivityCount) ]
    [] e.k = "kg" ->
         [ total  |-> e.ok = 1,
           range  |-> \A j \in DOMAIN e.v : e.v[j] >= 1 /\ e.v[j] <= 12,
           rule   |-> (e.ok = 1 /\ e.p >= 0) => e.v = KitchenGod(e.p) ]
    [] OTHER -> [ kind |-> FALSE ]

Failed(i) == LET c == Clauses(i) IN {n \in DOMAIN c : ~c[n]}

Key(i) == LET e == Rec[i] IN
  CASE e.k = "tb"  -> [k |-> "tb", t |-> e.t, row |-> e.row]
    [] e.k = "dg"  -> [k |-> "dg", mb |-> e.mb, dp |-> e.dp]
    [] e.k = "dt"  -> [k |-> "dt", mb |-> e.mb, dp |-> e.dp]
    [] e.k = "ht"  -> [k |-> "ht", hb |-> e.hb, dp |-> e.dp]
    [] e.k = "god" -> [k |-> "god", i |-> e.i]
    [] e.k = "via" -> [k |-> "via", j |-> e.j, hh |-> e.hh]
    [] e.k = "kg"  -> [k |-> "kg", y |-> e.y]
    [] OTHER       -> [k |-> e.k]

Nontrivial(i) == TRUE

INSTANCE TraceRun WITH Prop <- "C18", NLines <- NRec
=============================================================================
