SPECIFICATION Spec
CONSTANTS
  FromJ = 2250000
  ToJ = 2470000
  Slip = TRUE
INVARIANTS Forward Backward Agree Done
CHECK_DEADLOCK FALSE
