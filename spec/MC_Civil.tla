------------------------------ MODULE MC_Civil ------------------------------
(***************************************************************************)
(* Mode A for C01: the successor-defined civil calendar (Succ), the        *)
(* closed-form day number (JDN) and its inverse (DateOf) are three         *)
(* independent statements of the same calendar.  This model walks the      *)
(* chain of ALL dates From..To by Succ with a day counter and checks in    *)
(* every state that they agree, that the date is Valid, that Pred undoes   *)
(* Succ, that day-of-year / year length / month length add up, and that    *)
(* the weekday advances by one.  It certifies the oracle every trace spec  *)
(* uses; it says nothing about the code.                                   *)
(***************************************************************************)
EXTENDS Civil, TLC

CONSTANTS FromJ, ToJ       \* day numbers of the first and last date of the chain

VARIABLES date, j

vars == <<date, j>>

Init == /\ j = FromJ
        /\ date = DateOf(FromJ)

Tick == /\ j < ToJ
        /\ date' = Succ(date[1], date[2], date[3])
        /\ j' = j + 1

Spec == Init /\ [][Tick]_vars

y == date[1]
m == date[2]
d == date[3]

InvValid     == Valid(y, m, d)
InvJdn       == JDN(y, m, d) = j
InvDateOf    == DateOf(j) = date
InvPred      == j > FromJ => Succ(Pred(y, m, d)[1], Pred(y, m, d)[2], Pred(y, m, d)[3]) = date
InvDoy       == /\ Doy(y, m, d) >= 1 /\ Doy(y, m, d) <= YearLen(y)
                /\ (m = 12 /\ d = 31) => Doy(y, m, d) = YearLen(y)
                /\ (m = 1 /\ d = 1) => Doy(y, m, d) = 1
InvDim       == /\ d <= LastDayNo(y, m)
                /\ (d = LastDayNo(y, m) /\ m < 12) => JDN(y, m + 1, 1) - JDN(y, m, 1) = Dim(y, m)
InvGap       == ~InGap(y, m, d)
InvOrder     == j > FromJ => DateLess(Pred(y, m, d), date)
InvAnchors   == /\ (date = <<1582, 10, 4>>)  => j = 2299160
                /\ (date = <<1582, 10, 15>>) => j = 2299161
                /\ (date = <<2000, 1, 1>>)   => j = 2451545 /\ Weekday(j) = 6
                /\ (date = <<1, 1, 1>>)      => j = 1721424
                /\ (date = <<9999, 12, 31>>) => j = 5373484

(* reaching the last day proves the chain did not stop early *)
Done == j = ToJ => date = DateOf(ToJ)
=============================================================================
