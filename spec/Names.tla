-------------------------------- MODULE Names --------------------------------
(***************************************************************************)
(* X01 (beyond the listed properties) — the naming layer of the library:   *)
(* how the name (Culture::get_name) and the display string (Display) of    *)
(* every time unit are composed from its fields, and the name tables of    *)
(* the well-known cycles.                                                  *)
(*                                                                         *)
(* Strings are Unicode (TLC runs with -Dfile.encoding=UTF-8).  The tables  *)
(* are the classical lists (ten stems, twelve branches, twelve animals,    *)
(* the 24 terms starting at the winter solstice as the library counts      *)
(* them, the lunar month and day numerals, the twelve day officers, ...).  *)
(* Composition rules are one operator per type; Trace_X01 applies them to  *)
(* the fields the harness logs next to the strings the library produced.   *)
(***************************************************************************)
EXTENDS Integers, Sequences, TLC

Stems    == <<"甲", "乙", "丙", "丁", "戊", "己", "庚", "辛", "壬", "癸">>
Branches == <<"子", "丑", "寅", "卯", "辰", "巳", "午", "未", "申", "酉", "戌", "亥">>
Zodiac   == <<"鼠", "牛", "虎", "兔", "龙", "蛇", "马", "羊", "猴", "鸡", "狗", "猪">>
Elements == <<"木", "火", "土", "金", "水">>
WeekDays == <<"日", "一", "二", "三", "四", "五", "六">>
Duties   == <<"建", "除", "满", "平", "定", "执", "破", "危", "成", "收", "开", "闭">>
TwelveStars == <<"青龙", "明堂", "天刑", "朱雀", "金匮", "天德", "白虎", "玉堂", "天牢", "玄武", "司命", "勾陈">>
Mansions == <<"角", "亢", "氐", "房", "心", "尾", "箕", "斗", "牛", "女", "虚", "危", "室", "壁",
              "奎", "娄", "胃", "昴", "毕", "觜", "参", "井", "鬼", "柳", "星", "张", "翼", "轸">>
SevenStars == <<"日", "月", "火", "水", "木", "金", "土">>
SixStars == <<"先胜", "友引", "先负", "佛灭", "大安", "赤口">>
MinorRens == <<"大安", "留连", "速喜", "赤口", "小吉", "空亡">>
TenStars == <<"比肩", "劫财", "食神", "伤官", "偏财", "正财", "七杀", "正官", "偏印", "正印">>
Terrains == <<"长生", "沐浴", "冠带", "临官", "帝旺", "衰", "病", "死", "墓", "绝", "胎", "养">>
Directions == <<"北", "西南", "东", "东南", "中", "西北", "西", "东北", "南">>     \* Luoshu order 1..9
Zones    == <<"东", "北", "西", "南">>
Beasts   == <<"青龙", "玄武", "白虎", "朱雀">>
Lucks    == <<"吉", "凶">>
Numerals == <<"一", "二", "三", "四", "五", "六", "七", "八", "九">>
Dippers  == <<"天枢", "天璇", "天玑", "天权", "玉衡", "开阳", "摇光", "洞明", "隐元">>
Constellations == <<"白羊", "金牛", "双子", "巨蟹", "狮子", "处女", "天秤", "天蝎", "射手", "摩羯", "水瓶", "双鱼">>
Nayin == <<"海中金", "炉中火", "大林木", "路旁土", "剑锋金", "山头火", "涧下水", "城头土", "白蜡金", "杨柳木",
           "泉中水", "屋上土", "霹雳火", "松柏木", "长流水", "沙中金", "山下火", "平地木", "壁上土", "金箔金",
           "覆灯火", "天河水", "大驿土", "钗钏金", "桑柘木", "大溪水", "沙中土", "天上火", "石榴木", "大海水">>
Terms == <<"冬至", "小寒", "大寒", "立春", "雨水", "惊蛰", "春分", "清明", "谷雨", "立夏", "小满", "芒种",
           "夏至", "小暑", "大暑", "立秋", "处暑", "白露", "秋分", "寒露", "霜降", "立冬", "小雪", "大雪">>
LunarMonths == <<"正月", "二月", "三月", "四月", "五月", "六月", "七月", "八月", "九月", "十月", "十一月", "十二月">>
LunarDays == <<"初一", "初二", "初三", "初四", "初五", "初六", "初七", "初八", "初九", "初十",
               "十一", "十二", "十三", "十四", "十五", "十六", "十七", "十八", "十九", "二十",
               "廿一", "廿二", "廿三", "廿四", "廿五", "廿六", "廿七", "廿八", "廿九", "三十">>
LunarSeasons == <<"孟春", "仲春", "季春", "孟夏", "仲夏", "季夏", "孟秋", "仲秋", "季秋", "孟冬", "仲冬", "季冬">>
HalfYears == <<"上半年", "下半年">>
Quarters == <<"一季度", "二季度", "三季度", "四季度">>
WeekOrdinals == <<"第一周", "第二周", "第三周", "第四周", "第五周", "第六周">>
Nines    == [i \in 1..9 |-> Numerals[i] \o "九"]
Dogs     == <<"初伏", "中伏", "末伏">>
PlumRains == <<"入梅", "出梅">>
ThreePentads == <<"初候", "二候", "三候">>
Twenties == [i \in 1..9 |-> Numerals[i] \o "运"]
Sixties  == <<"上元", "中元", "下元">>
Ecliptics == <<"黄道", "黑道">>
SolarFestivals == <<"元旦", "三八妇女节", "植树节", "五一劳动节", "五四青年节", "六一儿童节", "建党节", "八一建军节", "教师节", "国庆节">>
LunarFestivals == <<"春节", "元宵节", "龙头节", "上巳节", "清明节", "端午节", "七夕节", "中元节", "中秋节", "重阳节", "冬至节", "腊八节", "除夕">>

LegalHolidays == <<"元旦节", "春节", "清明节", "劳动节", "端午节", "中秋节", "国庆节", "国庆中秋", "抗战胜利日">>
FetusStems == <<"门", "碓磨", "厨灶", "仓库", "房床">>            \* by day stem mod 5
FetusBranches == <<"碓", "厕", "炉", "门", "栖", "床">>            \* by day branch mod 6

(* the daily foetus spirit: place (stem part + branch part, with the traditional contractions), then where it is:
   inside the room ("房内" + direction) or outside (with "正" before a cardinal direction) *)
FetusPlace(hs, eb) ==
  LET raw == FetusStems[hs + 1] \o FetusBranches[eb + 1] IN
  CASE raw = "门门" -> "占大门" [] raw = "碓磨碓" -> "占碓磨" [] raw = "房床床" -> "占房床"
    [] hs = 0 -> "占" \o raw
    [] OTHER -> raw
Cardinal == {0, 2, 6, 8}      \* N, E, W, S in Luoshu order
FetusDayName(hs, eb, side, dir) ==
  FetusPlace(hs, eb) \o " " \o (IF side = 0 THEN "房内" ELSE "外" \o (IF dir \in Cardinal THEN "正" ELSE "")) \o Directions[dir + 1]

(* the cycles whose whole name table the trace compares (id -> table) *)
CycleTable(t) ==
  CASE t = "HeavenStem" -> Stems [] t = "EarthBranch" -> Branches [] t = "Zodiac" -> Zodiac [] t = "Element" -> Elements
    [] t = "Week" -> WeekDays [] t = "Duty" -> Duties [] t = "TwelveStar" -> TwelveStars [] t = "TwentyEightStar" -> Mansions
    [] t = "SevenStar" -> SevenStars [] t = "SixStar" -> SixStars [] t = "MinorRen" -> MinorRens [] t = "TenStar" -> TenStars
    [] t = "Terrain" -> Terrains [] t = "Direction" -> Directions [] t = "Zone" -> Zones [] t = "Beast" -> Beasts
    [] t = "Luck" -> Lucks [] t = "NineStar" -> Numerals [] t = "Dipper" -> Dippers [] t = "Constellation" -> Constellations
    [] t = "Sound" -> Nayin [] t = "LunarSeason" -> LunarSeasons [] t = "Nine" -> Nines [] t = "Dog" -> Dogs
    [] t = "PlumRain" -> PlumRains [] t = "ThreePhenology" -> ThreePentads [] t = "Twenty" -> Twenties [] t = "Sixty" -> Sixties
    [] t = "Ecliptic" -> Ecliptics
    [] t = "SixtyCycle" -> [p \in 1..60 |-> Stems[((p - 1) % 10) + 1] \o Branches[((p - 1) % 12) + 1]]
    [] t = "Ten" -> [k \in 1..6 |-> "甲" \o Branches[((10 * (k - 1)) % 12) + 1]]        \* the six decades are named by their first pillar
    [] OTHER -> <<>>
(* what a cyclic value displays as: its name, except the nine stars (number, colour, element) *)
NineStarFull == <<"一白水", "二黑土", "三碧木", "四绿木", "五黄土", "六白金", "七赤金", "八白土", "九紫火">>
CycleDisplay(t) == IF t = "NineStar" THEN NineStarFull ELSE CycleTable(t)
KnownCycles == {"HeavenStem", "EarthBranch", "Zodiac", "Element", "Week", "Duty", "TwelveStar", "TwentyEightStar", "SevenStar", "SixStar",
  "MinorRen", "TenStar", "Terrain", "Direction", "Zone", "Beast", "Luck", "NineStar", "Dipper", "Constellation", "Sound", "LunarSeason",
  "Nine", "Dog", "PlumRain", "ThreePhenology", "Twenty", "Sixty", "Ecliptic", "SixtyCycle", "Ten"}

-----------------------------------------------------------------------------
(* composition *)
Pillar(p) == Stems[(p % 10) + 1] \o Branches[(p % 12) + 1]          \* p = 0..59
Pad2(n) == IF n < 10 THEN "0" \o ToString(n) ELSE ToString(n)
Nth(di) == "第" \o ToString(di + 1) \o "天"                          \* di = 0-based day index

SolarYearS(y) == ToString(y) \o "年"
SolarMonthN(m) == ToString(m) \o "月"
SolarMonthS(y, m) == SolarYearS(y) \o SolarMonthN(m)
SolarDayN(d) == ToString(d) \o "日"
SolarDayS(y, m, d) == SolarMonthS(y, m) \o SolarDayN(d)
SolarTimeN(h, mi, s) == Pad2(h) \o ":" \o Pad2(mi) \o ":" \o Pad2(s)

LunarYearN(yp) == "农历" \o Pillar(yp) \o "年"
LunarMonthN(m) == (IF m < 0 THEN "闰" ELSE "") \o LunarMonths[IF m < 0 THEN -m ELSE m]
LunarMonthS(yp, m) == LunarYearN(yp) \o LunarMonthN(m)
LunarDayS(yp, m, d) == LunarMonthS(yp, m) \o LunarDays[d]
HourBranch(h) == ((h + 1) \div 2) % 12

(* <<name, display>> of a value of type t with logged integer fields f; <<>> for a type without a rule here *)
Expect(t, f) ==
  CASE t = "SolarYear"     -> <<SolarYearS(f[1]), SolarYearS(f[1])>>
    [] t = "SolarHalfYear" -> <<HalfYears[f[2] + 1], SolarYearS(f[1]) \o HalfYears[f[2] + 1]>>
    [] t = "SolarSeason"   -> <<Quarters[f[2] + 1], SolarYearS(f[1]) \o Quarters[f[2] + 1]>>
    [] t = "SolarMonth"    -> <<SolarMonthN(f[2]), SolarMonthS(f[1], f[2])>>
    [] t = "SolarWeek"     -> <<WeekOrdinals[f[3] + 1], SolarMonthS(f[1], f[2]) \o WeekOrdinals[f[3] + 1]>>
    [] t = "SolarDay"      -> <<SolarDayN(f[3]), SolarDayS(f[1], f[2], f[3])>>
    [] t = "SolarTime"     -> <<SolarTimeN(f[4], f[5], f[6]), SolarDayS(f[1], f[2], f[3]) \o " " \o SolarTimeN(f[4], f[5], f[6])>>
    [] t = "SolarTerm"     -> <<Terms[f[1] + 1], Terms[f[1] + 1]>>
    [] t = "SolarTermDay"  -> <<Terms[f[1] + 1], Terms[f[1] + 1] \o Nth(f[2])>>
    [] t = "LunarYear"     -> <<LunarYearN(f[1]), LunarYearN(f[1])>>
    [] t = "LunarMonth"    -> <<LunarMonthN(f[2]), LunarMonthS(f[1], f[2])>>
    [] t = "LunarWeek"     -> <<WeekOrdinals[f[3] + 1], LunarMonthS(f[1], f[2]) \o WeekOrdinals[f[3] + 1]>>
    [] t = "LunarDay"      -> <<LunarDays[f[3]], LunarDayS(f[1], f[2], f[3])>>
    (* the name of a lunar hour is its branch; its display string carries the hour PILLAR *)
    [] t = "LunarHour"     -> <<Branches[HourBranch(f[4]) + 1] \o "时", LunarDayS(f[1], f[2], f[3]) \o Pillar(f[5]) \o "时">>
    [] t = "SixtyCycleYear"  -> <<Pillar(f[1]) \o "年", Pillar(f[1]) \o "年">>
    [] t = "SixtyCycleMonth" -> <<Pillar(f[2]) \o "月", Pillar(f[1]) \o "年" \o Pillar(f[2]) \o "月">>
    [] t = "SixtyCycleDay"   -> <<Pillar(f[3]) \o "日", Pillar(f[1]) \o "年" \o Pillar(f[2]) \o "月" \o Pillar(f[3]) \o "日">>
    [] t = "SixtyCycleHour"  -> <<Pillar(f[4]) \o "时", Pillar(f[1]) \o "年" \o Pillar(f[2]) \o "月" \o Pillar(f[3]) \o "日" \o Pillar(f[4]) \o "时">>
    [] t = "EightChar"     -> LET s == Pillar(f[1]) \o " " \o Pillar(f[2]) \o " " \o Pillar(f[3]) \o " " \o Pillar(f[4]) IN <<s, s>>
    [] t = "NineDay"       -> <<Nines[f[1] + 1], Nines[f[1] + 1] \o Nth(f[2])>>
    [] t = "DogDay"        -> <<Dogs[f[1] + 1], Dogs[f[1] + 1] \o Nth(f[2])>>
    (* the day the plum rains end on has no day count *)
    [] t = "PlumRainDay"   -> <<PlumRains[f[1] + 1], IF f[1] = 0 THEN PlumRains[1] \o Nth(f[2]) ELSE PlumRains[2]>>
    [] t = "HideHeavenStemDay" -> <<Stems[f[1] + 1] \o Elements[f[2] + 1], Stems[f[1] + 1] \o Elements[f[2] + 1] \o Nth(f[3])>>
    [] t = "SolarFestival" -> <<SolarFestivals[f[4] + 1], SolarDayS(f[1], f[2], f[3]) \o " " \o SolarFestivals[f[4] + 1]>>
    [] t = "LunarFestival" -> <<LunarFestivals[f[4] + 1], LunarDayS(f[1], f[2], f[3]) \o " " \o LunarFestivals[f[4] + 1]>>
    [] t = "DecadeFortune" -> <<Pillar(f[1]), Pillar(f[1])>>
    [] t = "Fortune"       -> <<Pillar(f[1]), Pillar(f[1])>>
    [] t = "HideHeavenStem" -> <<Stems[f[1] + 1], Stems[f[1] + 1]>>
    [] t = "LegalHoliday"  -> <<LegalHolidays[f[5] + 1], SolarDayS(f[1], f[2], f[3]) \o " " \o LegalHolidays[f[5] + 1] \o "(" \o (IF f[4] = 1 THEN "班" ELSE "休") \o ")">>
    [] t = "FetusDay"      -> LET s == FetusDayName(f[1], f[2], f[3], f[4]) IN <<s, s>>
    [] t = "KitchenGodSteed" -> <<"灶马头", "灶马头">>
    [] OTHER -> <<>>

KnownTypes == {"DecadeFortune", "Fortune", "HideHeavenStem", "LegalHoliday", "FetusDay", "KitchenGodSteed","SolarYear", "SolarHalfYear", "SolarSeason", "SolarMonth", "SolarWeek", "SolarDay", "SolarTime", "SolarTerm", "SolarTermDay",
  "LunarYear", "LunarMonth", "LunarWeek", "LunarDay", "LunarHour", "SixtyCycleYear", "SixtyCycleMonth", "SixtyCycleDay", "SixtyCycleHour",
  "EightChar", "NineDay", "DogDay", "PlumRainDay", "HideHeavenStemDay", "SolarFestival", "LunarFestival"}

(* fields are inside the domains the tables are indexed with (a wild value must give a verdict, not a TLC error) *)
InRange(t, f) ==
  CASE t = "SolarHalfYear" -> f[2] \in 0..1 [] t = "SolarSeason" -> f[2] \in 0..3 [] t \in {"SolarWeek", "LunarWeek"} -> f[3] \in 0..5 /\ f[2] # 0 /\ f[2] \in -12..12 /\ f[1] >= 0
    [] t \in {"SolarTerm", "SolarTermDay"} -> f[1] \in 0..23
    [] t = "LunarYear" -> f[1] \in 0..59 [] t = "LunarMonth" -> f[1] \in 0..59 /\ f[2] \in -12..12 /\ f[2] # 0
    [] t = "LunarDay" -> f[1] \in 0..59 /\ f[2] \in -12..12 /\ f[2] # 0 /\ f[3] \in 1..30
    [] t = "LunarHour" -> f[1] \in 0..59 /\ f[2] \in -12..12 /\ f[2] # 0 /\ f[3] \in 1..30 /\ f[4] \in 0..23 /\ f[5] \in 0..59
    [] t = "SixtyCycleYear" -> f[1] \in 0..59 [] t = "SixtyCycleMonth" -> f[1] \in 0..59 /\ f[2] \in 0..59
    [] t = "SixtyCycleDay" -> \A i \in 1..3 : f[i] \in 0..59 [] t \in {"SixtyCycleHour", "EightChar"} -> \A i \in 1..4 : f[i] \in 0..59
    [] t = "NineDay" -> f[1] \in 0..8 [] t = "DogDay" -> f[1] \in 0..2 [] t = "PlumRainDay" -> f[1] \in 0..1
    [] t = "HideHeavenStemDay" -> f[1] \in 0..9 /\ f[2] \in 0..4
    [] t = "SolarFestival" -> f[4] \in 0..9
    [] t = "LunarFestival" -> f[1] \in 0..59 /\ f[2] \in -12..12 /\ f[2] # 0 /\ f[3] \in 1..30 /\ f[4] \in 0..12
    [] t \in {"DecadeFortune", "Fortune"} -> f[1] \in 0..59
    [] t = "HideHeavenStem" -> f[1] \in 0..9
    [] t = "LegalHoliday" -> f[4] \in 0..1 /\ f[5] \in 0..8
    [] t = "FetusDay" -> f[1] \in 0..4 /\ f[2] \in 0..5 /\ f[3] \in 0..1 /\ f[4] \in 0..8
    [] OTHER -> TRUE
=============================================================================
