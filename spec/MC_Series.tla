------------------------------ MODULE MC_Series ------------------------------
(***************************************************************************)
(* Mode A for C15: the series as sub-machines of the day clock over one    *)
(* abstract summer / winter.  For every pillar phase of the solstice day   *)
(* (60) and every distance from the summer solstice to the start of autumn *)
(* (44..50 days) a day counter walks 120 days.  Invariants: the Dog days   *)
(* are one block of 30 or 40 days whose three parts start on Geng days,    *)
(* the middle part has 20 days iff the fifth Geng day precedes the start   *)
(* of autumn; a Geng solstice day counts as the first Geng day; the Nines  *)
(* are 81 consecutive days; every day has exactly one commanding stem and  *)
(* the indices inside an allotment count 0, 1, 2, ... without a gap.       *)
(***************************************************************************)
EXTENDS Series, TLC

VARIABLES j, base, gap, prevDog, prevCmd

vars == <<j, base, gap, prevDog, prevCmd>>

(* base = day number of the solstice / Jie day; chosen so that every pillar phase occurs *)
Init == /\ base \in 1000..1059 /\ gap \in 44..50
        /\ j = base
        /\ prevDog = None /\ prevCmd = <<-1, -1, -1>>

Step == /\ j < base + 120
        /\ j' = j + 1
        /\ prevDog' = Dog(j, base, base + gap)
        /\ prevCmd' = Commanding(j, 3, base)
        /\ UNCHANGED <<base, gap>>

Spec == Init /\ [][Step]_vars

dg == Dog(j, base, base + gap)
cm == Commanding(j, 3, base)

InvDogStart  == (dg # None /\ dg[2] = 0) => StemOfDay(j) = Geng
InvDogBlock  == (prevDog # None /\ dg # None /\ j > base) => (dg = <<prevDog[1], prevDog[2] + 1>> \/ (dg[1] = prevDog[1] + 1 /\ dg[2] = 0))
InvDogFirst  == (StemOfDay(base) = Geng) => DogStart(base) = base + 20
InvDogMiddle == (dg # None /\ dg[1] = 1 /\ dg[2] >= 10) => DogStart(base) + 20 < base + gap
InvDogLen    == (dg # None /\ dg[1] = 2 /\ dg[2] = 0) => j >= base + gap       \* the last part never starts before the start of autumn
InvNine      == Nine(j, base, base + 365) # None <=> j < base + 81
InvCommand   == (j > base /\ j < base + 29) => (cm = <<prevCmd[1], prevCmd[2], prevCmd[3] + 1>> \/ (cm[2] = prevCmd[2] + 1 /\ cm[3] = 0))
InvCommand0  == j = base => cm = <<4, 1, 0>>
InvCommand7  == j = base + 7 => cm = <<2, 2, 0>>          \* Yin month: Bing takes over on the 8th day
=============================================================================
