------------------------------ MODULE Trace_C15 ------------------------------
(***************************************************************************)
(* C15 — term-anchored day series.  One `d` event per civil day (harness   *)
(* c15.rs) carrying the term days the series hang on and the answers of    *)
(* get_nine_day / get_dog_day / get_plum_rain_day / get_phenology_day /     *)
(* get_hide_heaven_stem_day; the expected answers are re-derived by        *)
(* Series.tla from the term days and the (day number + 49) mod 60 pillar.  *)
(* Claimed for every civil date of years 2..9998.                          *)
(***************************************************************************)
EXTENDS Series, Civil, TraceIO, TLC

VARIABLES l, nv, nt

InClaim(e) == e.y >= 2 /\ e.y <= 9998

DayClauses(e) ==
  LET ws0 == e.yt[1]  mz == e.yt[2]  xz == e.yt[3]  xs == e.yt[4]  lq == e.yt[5]  ws1 == e.yt[6]
      cmd == Commanding(e.j, e.ji, e.jj)
  IN
  [ civil     |-> Valid(e.y, e.m, e.d) /\ e.j = JDN(e.y, e.m, e.d),
    terms   |-> \A k \in 1..6 : e.yt[k] > 0,
    nine    |-> e.nine = Nine(e.j, ws0, ws1),
    dog     |-> e.dog = Dog(e.j, xz, lq),
    plum    |-> e.plum = PlumRain(e.j, mz, xs),
    pentad  |-> (e.ti \in 0..23 /\ e.tj <= e.j) => e.ph = Pentad(e.j, e.ti, e.tj),
    command |-> (e.ji \in 1..23 /\ e.ji % 2 = 1 /\ e.jj <= e.j) => e.hs = <<cmd[1], TypeOf(e.ji, cmd[2]), cmd[3]>>,
    (* the term the day is assigned is the latest that has started (its own day <= the day < the next term's day) *)
    governed |-> e.ti \in 0..23 /\ e.ji \in 0..23 /\ e.tj <= e.j /\ (e.tn < 0 \/ e.j < e.tn)
  ]

Clauses(i) ==
  IF Rec[i].k = "d" THEN (IF InClaim(Rec[i]) THEN DayClauses(Rec[i]) ELSE [outside |-> TRUE]) ELSE [walk |-> FALSE]

Failed(i) == LET c == Clauses(i) IN {n \in DOMAIN c : ~c[n]}
Key(i) == LET e == Rec[i] IN IF e.k = "d" THEN [k |-> "d", y |-> e.y, m |-> e.m, d |-> e.d, n |-> e.y * 10000 + e.m * 100 + e.d] ELSE [k |-> e.k, at |-> e.at]

(* non-trivial: days inside a series or on the boundary of an allotment / pentad *)
Nontrivial(i) == LET e == Rec[i] IN
  IF e.k = "d" THEN e.nine[1] >= 0 \/ e.dog[1] >= 0 \/ e.plum[1] >= 0 \/ e.ph[2] = 0 \/ e.hs[3] = 0 ELSE TRUE

INSTANCE TraceRun WITH Prop <- "C15", NLines <- NRec
=============================================================================
