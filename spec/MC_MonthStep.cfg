SPECIFICATION Spec
CONSTANTS
  NYears = 2
  MaxStep = 14
INVARIANTS Ordinality Label
PROPERTY Termination
CHECK_DEADLOCK FALSE
