SPECIFICATION Spec
CONSTANT CarryMode = "total"
INVARIANT Carry
CHECK_DEADLOCK FALSE
