------------------------------ MODULE DayClock ------------------------------
(***************************************************************************)
(* The day clock: one Tick per civil day advances                          *)
(*   - the day number, the weekday (mod 7) and the sexagenary day pillar    *)
(*     (mod 60), both anchored to the day number (C07), and                *)
(*   - the lunar date, which either moves inside its month or rolls over   *)
(*     to day 1 of the next month (C02).                                   *)
(* A state is a record; the clauses of Tick are named so that the trace    *)
(* specifications can report which one a pair of logged days violates.     *)
(***************************************************************************)
EXTENDS LunarCal, Civil

PillarOf(j) == (j + 49) % 60      \* C07 anchor: 0 = Jiazi
StemOf(p) == p % 10
BranchOf(p) == p % 12

(* lunar part of a day state: [ly, lm, ld, ln] (year, signed month, day, length of that month) *)
SameMonth(a, b) == a.ld < a.ln /\ b.ly = a.ly /\ b.lm = a.lm /\ b.ln = a.ln /\ b.ld = a.ld + 1
NewMonth(a, b)  == a.ld = a.ln /\ b.ld = 1 /\ LabelSuccLoose(a.ly, a.lm, b.ly, b.lm)
LunarTick(a, b) == SameMonth(a, b) \/ NewMonth(a, b)

LunarDateOk(a) == a.ln \in MonthLens /\ a.ld >= 1 /\ a.ld <= a.ln /\ a.lm # 0 /\ Abs(a.lm) <= 12

(* what LunarDay::next(1) must return, given only the current date and its month length:
   inside the month it is fully determined *)
NextInside(a, n1) == a.ld < a.ln => n1 = <<a.ly, a.lm, a.ld + 1>>

(* the clauses of Tick, one operator each (a, b are consecutive day states) *)
TickJdn(a, b)    == b.j = a.j + 1
TickWeek(a, b)   == b.w = (a.w + 1) % 7
TickPillar(a, b) == b.p = (a.p + 1) % 60
TickLunar(a, b)  == LunarTick(a, b)

DayTick(a, b) == TickJdn(a, b) /\ TickWeek(a, b) /\ TickPillar(a, b) /\ TickLunar(a, b)
=============================================================================
