----------------------------- MODULE MC_Fortune -----------------------------
(***************************************************************************)
(* Mode A for C16: the seconds -> counts conversion walked over a grid of  *)
(* seconds up to 32 days (a Jie month), and the calendar addition from     *)
(* births on month ends of months of every length incl. October 1582.      *)
(* Invariants: the counts re-compose to the seconds (lossless up to the    *)
(* half-second granularity), stay in their units' ranges, the end is never *)
(* before birth and at most about eleven years later, and the day spill    *)
(* carries into the following month.                                       *)
(***************************************************************************)
EXTENDS Fortune, TLC

VARIABLES sec, b

vars == <<sec, b>>

Births == { <<2023, 1, 31, 0>>, <<2024, 1, 31, 86399>>, <<2023, 12, 31, 43200>>, <<1582, 9, 30, 3600>>, <<1582, 10, 4, 82800>>, <<1582, 10, 15, 0>>,
            <<1572, 10, 10, 7200>>, <<1900, 2, 28, 86340>>, <<2000, 2, 29, 1>>, <<9980, 12, 31, 86399>> }

Init == sec = 0 /\ b \in Births
Next == sec < 2764800 /\ sec' = sec + 10007 /\ b' = b
Spec == Init /\ [][Next]_vars

c == CountsDefault(sec)
InvCompose == c[1] * 259200 + c[2] * 21600 + c[3] * 720 + c[4] * 30 + (c[5] \div 2) = sec
InvUnits   == c[1] <= 10 /\ c[2] \in 0..11 /\ c[3] \in 0..29 /\ c[4] \in 0..23 /\ c[5] \in 0..58 /\ c[5] % 2 = 0
InvMinute  == CountsSect2(sec)[1] = c[1] /\ CountsSect2(sec)[2] = c[2] /\ CountsChina95(sec)[3] = CountsSect2(sec)[3]
e == EndOf(b, c)
bj == JDN(b[1], b[2], b[3])
InvAfter   == ~Less(e, <<bj, b[4]>>)
InvBound   == e[1] - bj <= MaxLimitDays
InvSpill   == (sec = 0) => e = <<bj, b[4]>>
=============================================================================
