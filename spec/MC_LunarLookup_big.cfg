SPECIFICATION Spec
CONSTANTS
  Lengths <- MCLengths
  NLun = 5
  MaxOff = 2
  LoopMode = "both"
INVARIANT Found
PROPERTY Termination
CHECK_DEADLOCK FALSE
