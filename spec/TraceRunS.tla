------------------------------ MODULE TraceRunS ------------------------------
(***************************************************************************)
(* Replay engine with an abstract state (Mode B for stateful components).  *)
(* Like TraceRun, but the instantiating module also maintains the abstract *)
(* state `st` of its design model along the trace:                         *)
(*   St0            the initial abstract state                             *)
(*   FailedS(s, i)  clauses of the design action for line i that are false *)
(*                  in abstract state s                                    *)
(*   NextSt(s, i)   the abstract state after line i (re-synchronised from  *)
(*                  the log when the line did not conform)                 *)
(***************************************************************************)
EXTENDS Integers, Sequences, TLC, Json

CONSTANTS Prop, NLines, St0, FailedS(_, _), NextSt(_, _), Key(_), Nontrivial(_)

VARIABLES l, nv, nt, st

tvars == <<l, nv, nt, st>>

TraceInit == l = 1 /\ nv = 0 /\ nt = 0 /\ st = St0

Report(i, f) == PrintT("NONCONF " \o ToJson([p |-> Prop, line |-> i, clauses |-> f, key |-> Key(i)]))

Summary(consumed, bad, nontriv) ==
    PrintT("SUMMARY " \o ToJson([p |-> Prop, consumed |-> consumed, nonconf |-> bad, nontrivial |-> nontriv]))

Conform(i) == FailedS(st, i) = {} /\ nv' = nv

Deviate(i) == LET f == FailedS(st, i) IN f # {} /\ Report(i, f) /\ nv' = nv + 1

TraceNext ==
    /\ l <= NLines
    /\ (Conform(l) \/ Deviate(l))
    /\ st' = NextSt(st, l)
    /\ nt' = nt + (IF Nontrivial(l) THEN 1 ELSE 0)
    /\ l' = l + 1
    /\ (l = NLines => Summary(l, nv', nt'))

TraceSpec == TraceInit /\ [][TraceNext]_tvars

TraceAccepted ==
    \/ TLCGet("stats").diameter = NLines + 1
    \/ NLines = 0 /\ Summary(0, 0, 0)
=============================================================================
