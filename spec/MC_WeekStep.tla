---------------------------- MODULE MC_WeekStep ----------------------------
(* Mode A for the week-stepping algorithm (WeekStep.tla): every abstract calendar of NMonths months with lengths
   from MCLengths, every start weekday, every offered week and every step |n| <= MaxStep. *)
EXTENDS WeekStep
MCLengthsSmall == {21, 28, 30, 31}
MCLengths == {21, 28, 29, 30, 31}
=============================================================================
