SPECIFICATION Spec
CONSTANTS
  Threads = {1, 2}
  Reqs <- MCReqs
  ValidReqs <- MCValid
  MaxCalls = 2
  KeyMode = "concat"
  CsMode = "split"
INVARIANT Inv
CHECK_DEADLOCK FALSE
