------------------------------ MODULE Trace_C01 ------------------------------
(***************************************************************************)
(* C01 — civil calendar and day count agree for every date 0001..9999.     *)
(* Trace spec: every logged call of the real code must be a step the       *)
(* Civil calendar allows.  Event kinds (producer: harness/src/c01.rs):     *)
(*   d    one civil day of a walk driven by SolarDay::next(1)              *)
(*   acc  acceptance of day 0..32 for one (year, month) candidate          *)
(*   st   SolarDay::next(n)                                                *)
(*   pr   subtract / is_before / is_after / == on a pair                   *)
(*   abort a walk that could not continue                                  *)
(***************************************************************************)
EXTENDS Civil, TraceIO, TLC

VARIABLES l, nv, nt

ToSet(s) == {s[i] : i \in DOMAIN s}
StrictlyInc(s) == \A i \in DOMAIN s : i > 1 => s[i - 1] < s[i]

(* ---- day walk -------------------------------------------------------- *)
InRangeDate(t) == t[1] >= MinYear /\ t[1] <= MaxYear
Refused3(a, b, c) == a = -1 /\ b = -1 /\ c = -1

DayClauses(i) ==
  LET e == Rec[i]
      ok == Valid(e.y, e.m, e.d)
      sc == Succ(e.y, e.m, e.d)
      pd == Pred(e.y, e.m, e.d)
  IN
  [ valid   |-> ok,
    jdn     |-> ok => (e.j = JDN(e.y, e.m, e.d) /\ e.jf = 1 /\ e.fj = e.j),
    back    |-> ok => <<e.by, e.bm, e.bd>> = <<e.y, e.m, e.d>>,
    dateof  |-> InRangeJ(e.j) => DateOf(e.j) = <<e.y, e.m, e.d>>,
    next    |-> ok => IF InRangeDate(sc) THEN <<e.ny, e.nm, e.nd>> = sc ELSE Refused3(e.ny, e.nm, e.nd),
    prev    |-> ok => IF InRangeDate(pd) THEN <<e.py, e.pm, e.pd>> = pd ELSE Refused3(e.py, e.pm, e.pd),
    zero    |-> <<e.zy, e.zm, e.zd>> = <<e.y, e.m, e.d>>,
    doy     |-> ok => e.doy = Doy(e.y, e.m, e.d) - 1,
    dim     |-> ok => e.dim = Dim(e.y, e.m),
    ylen    |-> ok => e.ylen = YearLen(e.y),
    leap    |-> ok => e.leap = Flag(IsLeap(e.y)),
    (* Tick: relation to the previous line of the same walk *)
    tickj   |-> (e.s = 0 /\ i > 1 /\ Rec[i - 1].k = "d") => e.j = Rec[i - 1].j + 1,
    tickd   |-> (e.s = 0 /\ i > 1 /\ Rec[i - 1].k = "d" /\ Valid(Rec[i - 1].y, Rec[i - 1].m, Rec[i - 1].d))
                   => <<e.y, e.m, e.d>> = Succ(Rec[i - 1].y, Rec[i - 1].m, Rec[i - 1].d)
  ]

(* ---- acceptance ------------------------------------------------------- *)
AccClauses(i) ==
  LET e == Rec[i]
      want == {d \in 0..32 : Valid(e.y, e.m, d)}
  IN
  [ accept  |-> ToSet(e.a) = want /\ StrictlyInc(e.a),
    acceptN |-> ToSet(e.n) = want /\ StrictlyInc(e.n),
    month   |-> e.mok = Flag(e.y >= MinYear /\ e.y <= MaxYear /\ e.m >= 1 /\ e.m <= 12),
    year    |-> e.yok = Flag(e.y >= MinYear /\ e.y <= MaxYear)
  ]

(* ---- stepping --------------------------------------------------------- *)
StepClauses(i) ==
  LET e == Rec[i]
      tj == JDN(e.y, e.m, e.d) + e.n
  IN
  [ src     |-> Valid(e.y, e.m, e.d),
    step    |-> (Valid(e.y, e.m, e.d) /\ InRangeJ(tj)) => <<e.ry, e.rm, e.rd>> = DateOf(tj)
  ]

(* ---- pairs ------------------------------------------------------------ *)
PairClauses(i) ==
  LET e == Rec[i]
      va == Valid(e.ay, e.am, e.ad)
      vb == Valid(e.by, e.bm, e.bd)
      ja == JDN(e.ay, e.am, e.ad)
      jb == JDN(e.by, e.bm, e.bd)
  IN
  [ src     |-> va /\ vb /\ e.ok = 1,
    diff    |-> (va /\ vb) => e.diff = jb - ja,
    before  |-> (va /\ vb) => e.bef = Flag(ja < jb),
    after   |-> (va /\ vb) => e.aft = Flag(ja > jb),
    equal   |-> (va /\ vb) => e.eq = Flag(ja = jb)
  ]

Clauses(i) ==
  CASE Rec[i].k = "d"   -> DayClauses(i)
    [] Rec[i].k = "acc" -> AccClauses(i)
    [] Rec[i].k = "st"  -> StepClauses(i)
    [] Rec[i].k = "pr"  -> PairClauses(i)
    [] OTHER            -> [walk |-> FALSE]

Failed(i) == LET c == Clauses(i) IN {n \in DOMAIN c : ~c[n]}

Key(i) ==
  LET e == Rec[i] IN
  CASE e.k = "d"   -> [k |-> "d", y |-> e.y, m |-> e.m, d |-> e.d]
    [] e.k = "acc" -> [k |-> "acc", y |-> e.y, m |-> e.m]
    [] e.k = "st"  -> [k |-> "st", y |-> e.y, m |-> e.m, d |-> e.d, n |-> e.n]
    [] e.k = "pr"  -> [k |-> "pr", y |-> e.ay, m |-> e.am, d |-> e.ad, y2 |-> e.by, m2 |-> e.bm, d2 |-> e.bd]
    [] OTHER       -> [k |-> e.k, at |-> e.at]

(* non-trivial: month/year ends, leap days, the 1582 seam, refused candidates that are
   nearly dates, steps that leave the month, pairs in different months *)
Nontrivial(i) ==
  LET e == Rec[i] IN
  CASE e.k = "d"   -> e.d = 1 \/ e.d >= 28 \/ (e.y = 1582 /\ e.m = 10)
    [] e.k = "acc" -> e.m >= 1 /\ e.m <= 12 /\ e.y >= 1 /\ e.y <= 9999
    [] e.k = "st"  -> e.ry # e.y \/ e.rm # e.m
    [] e.k = "pr"  -> e.ay # e.by \/ e.am # e.bm
    [] OTHER       -> TRUE

INSTANCE TraceRun WITH Prop <- "C01", NLines <- NRec
=============================================================================
