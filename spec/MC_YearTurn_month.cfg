SPECIFICATION Spec
CONSTANT Days = 26
CONSTANT JanDays = 3
CONSTANT Mode = "month"
INVARIANT YearLaw
INVARIANT MonthLaw
CHECK_DEADLOCK FALSE
