SPECIFICATION Spec
INVARIANTS InvDogStart InvDogBlock InvDogFirst InvDogMiddle InvDogLen InvNine InvCommand InvCommand0 InvCommand7
CHECK_DEADLOCK FALSE
