------------------------------ MODULE EightChar ------------------------------
(***************************************************************************)
(* Hour pillar, the 23:00 day roll-over and the eight characters (C09).    *)
(* The hour branch is floor((hour + 1) / 2) mod 12; the hour stem follows  *)
(* from the day stem by the Five-Rats rule (Jia / Ji days start with a     *)
(* Jia-Zi hour, Yi / Geng with Bing-Zi, ...); from 23:00 the day pillar    *)
(* used is the next day's.  The eight characters of an instant are its     *)
(* year, month (Pillars.tla), day and hour pillars.                        *)
(***************************************************************************)
EXTENDS Pillars

DayPillarOf(j) == (j + 49) % 60

HourBranch(h) == ((h + 1) \div 2) % 12

(* day pillar in force at hour h of the civil day with pillar dp *)
RolledDay(dp, h) == IF h = 23 THEN (dp + 1) % 60 ELSE dp

(* Five Rats: stem of the Zi hour from the (rolled) day stem *)
ZiStem(ds) == (2 * (ds % 5)) % 10

HourPillar(dp, h) ==
    LET d == RolledDay(dp, h)
        b == HourBranch(h)
    IN PillarOfSB((ZiStem(Stem(d)) + b) % 10, b)

(* index of the double-hour in the day: the lunar view counts 23:00 as slot 12, the sexagenary view as slot 0 *)
LunarSlot(h) == (h + 1) \div 2
SexagenarySlot(h) == HourBranch(h)

(* the double-hour that contains <<j, s>>, as <<first instant, instant after the last>> in <<day number, second>> *)
DoubleHour(j, s) ==
    LET h == s \div 3600 IN
    IF h = 23 THEN << <<j, 82800>>, <<j + 1, 3600>> >>
    ELSE IF h = 0 THEN << <<j - 1, 82800>>, <<j, 3600>> >>
    ELSE << <<j, (2 * ((h + 1) \div 2) - 1) * 3600>>, <<j, (2 * ((h + 1) \div 2) + 1) * 3600>> >>
=============================================================================
