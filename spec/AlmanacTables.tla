--------------------------- MODULE AlmanacTables ---------------------------
(***************************************************************************)
(* Well-formedness of the packed almanac lookup tables (C18).  A lookup    *)
(* takes a pair of pillars and returns lists of indices into the spirit    *)
(* list (151 entries, the first 60 auspicious) and the activity list (141  *)
(* entries).  The content of the almanac is data; what must ALWAYS hold is *)
(* stated here.                                                            *)
(***************************************************************************)
EXTENDS Integers, Sequences, FiniteSets

SpiritCount == 151
AuspiciousCount == 60
ActivityCount == 141

ToSet(s) == {s[i] : i \in DOMAIN s}
InList(s, n) == \A i \in DOMAIN s : s[i] >= 0 /\ s[i] < n

SpiritLuck(i) == IF i < AuspiciousCount THEN 0 ELSE 1

(* Lookup of the day spirits of (month branch, day pillar): api = what the code returned, raw = the record decoded independently *)
SpiritsOk(api, raw) ==
    /\ Len(api) >= 1
    /\ InList(raw, SpiritCount)
    /\ api = raw

ActivitiesOk(rec, avoid, rawRec, rawAvoid) ==
    /\ InList(rawRec, ActivityCount) /\ InList(rawAvoid, ActivityCount)
    /\ rec = rawRec /\ avoid = rawAvoid
    /\ ToSet(rec) \cap ToSet(avoid) = {}

(* one row of a table holds exactly the sixty day pillars *)
RowHeadsOk(heads) ==
    LET real == SelectSeq(heads, LAMBDA h : h # -1) IN
    /\ Len(real) = 60
    /\ \A i \in 1..60 : i <= Len(real) => real[i] = i - 1

(* kitchen god: the count from the New Year's day branch (stem) up to a fixed branch (stem), 1-based *)
FromBranch(p, n) == ((n - (p % 12)) % 12) + 1
FromStem(p, n) == ((n - (p % 10)) % 10) + 1
KitchenGod(p) == << FromBranch(p, 0), FromBranch(p, 0), FromBranch(p, 1), FromBranch(p, 3), FromBranch(p, 4), FromBranch(p, 6),
                    FromBranch(p, 9), FromBranch(p, 9), FromBranch(p, 11), FromStem(p, 0), FromStem(p, 2), FromStem(p, 7),
                    FromBranch(p, 2), FromStem(p, 2), FromBranch(p, 2), FromStem(p, 3) >>
=============================================================================
