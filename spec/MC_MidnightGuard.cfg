SPECIFICATION Spec
CONSTANTS
  Guard = 1200
  MaxErr = 1199
INVARIANT Sound
CHECK_DEADLOCK FALSE
