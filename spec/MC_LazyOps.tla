---------------------------- MODULE MC_LazyOps ----------------------------
(***************************************************************************)
(* Mode C generator for the per-value lazy memos: every client program of  *)
(* MaxOps operations (views, clones, steps over two registers) that ends   *)
(* in a get and contains a step or a clone, as a behaviour of Lazy.tla,    *)
(* printed as one REPLAY line.  The harness runs each program on real      *)
(* LunarDay and LunarHour values (`lp` events) and Trace_C10 folds the     *)
(* same operators (RegsAfter / Answer of Lazy.tla) over the logged program.*)
(***************************************************************************)
EXTENDS Lazy, Json

MCDeltas == {1, -13}

VARIABLE hist

HInit == Init /\ hist = <<>>

HDo(op) == Do(op) /\ hist' = Append(hist, op)

HNext == \E r \in Regs :
           \/ HDo(<<OpView1, r, r, 0>>) \/ HDo(<<OpView2, r, r, 0>>) \/ HDo(<<OpVia, r, r, 0>>)
           \/ \E q \in Regs : (r # q /\ HDo(<<OpClone, r, q, 0>>)) \/ \E d \in Deltas : HDo(<<OpStep, r, q, d>>)

HSpec == HInit /\ [][HNext]_<<vars, hist>>

Done == nops = MaxOps

(* programs worth replaying: they end in a get, contain a step or a clone before it, and (the two registers start
   equal, so programs come in mirror pairs) begin with register 1 *)
Worth == /\ IsGet(hist[Len(hist)][1])
         /\ \E i \in 1..(Len(hist) - 1) : ~IsGet(hist[i][1])
         /\ hist[1][2] = 1

Flat(h) == [i \in 1..(4 * Len(h)) |-> h[(i + 3) \div 4][((i - 1) % 4) + 1]]

Emit == (Done /\ Worth) => PrintT("REPLAY " \o ToJson([ops |-> Flat(hist)]))

InvEmit == AnswerRight /\ MemoSound /\ FillOrder /\ Emit
=============================================================================
