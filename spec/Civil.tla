------------------------------- MODULE Civil -------------------------------
(***************************************************************************)
(* The civil calendar the library promises (property C01): proleptic      *)
(* Julian up to 1582-10-04, Gregorian from 1582-10-15, the ten days in     *)
(* between do not exist.  Everything here is stated from the calendar      *)
(* rules (count of days in years / months), never from the library's       *)
(* Meeus-style floating point arithmetic.                                  *)
(*                                                                         *)
(* A date is a triple <<y, m, d>>.  A day is also identified by its        *)
(* Julian Day Number at noon (JDN, an integer).  0001-01-01 (Julian) is    *)
(* JDN 1721424; 1582-10-04 is 2299160; 1582-10-15 is 2299161.              *)
(***************************************************************************)
EXTENDS Integers, Sequences

MinYear == 1
MaxYear == 9999

JDN_0001_01_01 == 1721424      \* Julian calendar 0001-01-01
JDN_GREG_EPOCH == 1721426      \* proleptic Gregorian 0001-01-01
JDN_1582_10_04 == 2299160
JDN_1582_10_15 == 2299161
JDN_9999_12_31 == 5373484

(* leap year: Julian rule through 1582, Gregorian rule after *)
IsLeap(y) == IF y <= 1582 THEN y % 4 = 0
             ELSE (y % 4 = 0 /\ y % 100 # 0) \/ (y % 400 = 0)

\* @type: Seq(Int);
NominalDim == <<31, 28, 31, 30, 31, 30, 31, 31, 30, 31, 30, 31>>

(* highest day number a month can carry (31 for October 1582) *)
LastDayNo(y, m) == IF m = 2 /\ IsLeap(y) THEN 29 ELSE NominalDim[m]

(* number of days that exist in the month (21 for October 1582) *)
Dim(y, m) == IF y = 1582 /\ m = 10 THEN 21 ELSE LastDayNo(y, m)

YearLen(y) == IF y = 1582 THEN 355 ELSE IF IsLeap(y) THEN 366 ELSE 365

InGap(y, m, d) == y = 1582 /\ m = 10 /\ d >= 5 /\ d <= 14

(* a date that exists *)
Valid(y, m, d) ==
    /\ y >= MinYear /\ y <= MaxYear
    /\ m >= 1 /\ m <= 12
    /\ d >= 1 /\ d <= LastDayNo(y, m)
    /\ ~InGap(y, m, d)

(* the civil day after <<y,m,d>> *)
\* @type: (Int, Int, Int) => <<Int, Int, Int>>;
Succ(y, m, d) ==
    IF y = 1582 /\ m = 10 /\ d = 4 THEN <<1582, 10, 15>>
    ELSE IF d < LastDayNo(y, m) THEN <<y, m, d + 1>>
    ELSE IF m < 12 THEN <<y, m + 1, 1>>
    ELSE <<y + 1, 1, 1>>

(* the civil day before <<y,m,d>> *)
\* @type: (Int, Int, Int) => <<Int, Int, Int>>;
Pred(y, m, d) ==
    IF y = 1582 /\ m = 10 /\ d = 15 THEN <<1582, 10, 4>>
    ELSE IF d > 1 THEN <<y, m, d - 1>>
    ELSE IF m > 1 THEN <<y, m - 1, LastDayNo(y, m - 1)>>
    ELSE <<y - 1, 12, 31>>

(* lexicographic order on dates *)
\* @type: (<<Int, Int, Int>>, <<Int, Int, Int>>) => Bool;
DateLess(a, b) ==
    \/ a[1] < b[1]
    \/ a[1] = b[1] /\ a[2] < b[2]
    \/ a[1] = b[1] /\ a[2] = b[2] /\ a[3] < b[3]

(* whole days in the years before year y, in each pure calendar *)
DaysBeforeYearJulian(y) == 365 * (y - 1) + ((y - 1) \div 4)
DaysBeforeYearGreg(y)   == 365 * (y - 1) + ((y - 1) \div 4) - ((y - 1) \div 100) + ((y - 1) \div 400)

OnOrAfterSwitch(y, m, d) ==
    \/ y > 1582
    \/ y = 1582 /\ m > 10
    \/ y = 1582 /\ m = 10 /\ d >= 15

(* closed-form day number of an existing date *)
JDN(y, m, d) ==
    LET lp  == IF m > 2 THEN 1 ELSE 0
        \* @type: Seq(Int);
        cum == <<0, 31, 59, 90, 120, 151, 181, 212, 243, 273, 304, 334>>
    IN IF OnOrAfterSwitch(y, m, d)
       THEN JDN_GREG_EPOCH + DaysBeforeYearGreg(y) + cum[m]
              + (IF lp = 1 /\ ((y % 4 = 0 /\ y % 100 # 0) \/ y % 400 = 0) THEN 1 ELSE 0) + d - 1
       ELSE JDN_0001_01_01 + DaysBeforeYearJulian(y) + cum[m]
              + (IF lp = 1 /\ y % 4 = 0 THEN 1 ELSE 0) + d - 1

Min2(a, b) == IF a < b THEN a ELSE b

(* month and day from a 0-based day-of-year under a given leap flag *)
\* @type: (Int, Bool) => <<Int, Int>>;
MonthDayOf(doy, leap) ==
    LET \* @type: Seq(Int);
        cum == IF leap THEN <<0, 31, 60, 91, 121, 152, 182, 213, 244, 274, 305, 335, 366>>
                       ELSE <<0, 31, 59, 90, 120, 151, 181, 212, 243, 273, 304, 334, 365>>
        m   == CHOOSE k \in 1..12 : cum[k] <= doy /\ doy < cum[k + 1]
    IN <<m, doy - cum[m] + 1>>

(* date of a day number (inverse of JDN), by cycle arithmetic *)
\* @type: Int => <<Int, Int, Int>>;
DateOf(j) ==
    IF j >= JDN_1582_10_15
    THEN LET a    == j - JDN_GREG_EPOCH
             q400 == a \div 146097
             r    == a % 146097
             c    == Min2(r \div 36524, 3)
             r2   == r - 36524 * c
             q4   == r2 \div 1461
             r4   == r2 % 1461
             yo   == Min2(r4 \div 365, 3)
             y    == 400 * q400 + 100 * c + 4 * q4 + yo + 1
             md   == MonthDayOf(r4 - 365 * yo, (y % 4 = 0 /\ y % 100 # 0) \/ y % 400 = 0)
         IN <<y, md[1], md[2]>>
    ELSE LET a  == j - JDN_0001_01_01
             q4 == a \div 1461
             r4 == a % 1461
             yo == Min2(r4 \div 365, 3)
             y  == 4 * q4 + yo + 1
             md == MonthDayOf(r4 - 365 * yo, y % 4 = 0)
         IN <<y, md[1], md[2]>>

(* 1-based day of year counting existing days only *)
Doy(y, m, d) == JDN(y, m, d) - JDN(y, 1, 1) + 1

(* day of week, 0 = Sunday.  JDN 0 was a Monday. *)
Weekday(j) == (j + 1) % 7

InRangeJ(j) == j >= JDN_0001_01_01 /\ j <= JDN_9999_12_31

=============================================================================
