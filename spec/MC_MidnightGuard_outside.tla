---------------------- MODULE MC_MidnightGuard_outside ----------------------
(* the same machine with the claim extended beyond the guard band: EXPECTED TO FAIL (bin/selftest) *)
EXTENDS MC_MidnightGuard
Unsound == pc = "done" => day = 0
=============================================================================
