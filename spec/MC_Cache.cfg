SPECIFICATION Spec
CONSTANTS
  Threads = {1, 2}
  Reqs <- MCReqs
  ValidReqs <- MCValid
  MaxCalls = 2
  KeyMode = "delimited"
  CsMode = "split"
INVARIANT Inv
PROPERTY Termination
CHECK_DEADLOCK FALSE
