------------------------------- MODULE Fortune -------------------------------
(***************************************************************************)
(* Child limit and fortunes (C16).                                         *)
(* Direction: luck runs forward exactly for Yang-year men and Yin-year     *)
(* women.  The governing Jie is the next Jie (forward) or the Jie on or    *)
(* before birth (backward).  The seconds between birth and that Jie are    *)
(* converted at 3 days = 1 year, 1 day = 4 months, 1 hour = 5 days,        *)
(* 1 minute = 2 hours, 1 second = 2 minutes, and the limit ends at the     *)
(* birth instant plus that many CALENDAR years, months, days, hours and    *)
(* minutes: the month is shifted keeping the day-of-month number (a number *)
(* beyond the month's end spills into the following month), then days,     *)
(* hours and minutes are added on the time line.                           *)
(***************************************************************************)
EXTENDS Civil, Clock

Forward(yearStem, man) == (yearStem % 2 = 0 /\ man) \/ (yearStem % 2 = 1 /\ ~man)

(* default strategy: <<years, months, days, hours, minutes>> from seconds *)
CountsDefault(sec) ==
    LET y == sec \div 259200   r1 == sec % 259200
        m == r1 \div 21600     r2 == r1 % 21600
        d == r2 \div 720       r3 == r2 % 720
        h == r3 \div 30        r4 == r3 % 30
    IN <<y, m, d, h, 2 * r4>>

(* minute-based strategies *)
CountsChina95(sec) ==
    LET mi == sec \div 60
        y == mi \div 4320  r1 == mi % 4320
        m == r1 \div 360   r2 == r1 % 360
    IN <<y, m, r2 \div 12, 0, 0>>
CountsSect2(sec) ==
    LET mi == sec \div 60
        y == mi \div 4320  r1 == mi % 4320
        m == r1 \div 360   r2 == r1 % 360
    IN <<y, m, r2 \div 12, 2 * (r2 % 12), 0>>

(* day/double-hour strategy: 3 days = 1 year, 1 day = 4 months, 1 double-hour = 10 days; dd = whole days and hd = double-hours
   (0..11) between the two instants *)
CountsSect1(dd, hd) ==
    LET months == 4 * dd + ((10 * hd) \div 30) IN
    <<months \div 12, months % 12, (10 * hd) % 30, 0, 0>>

(* day number of "day-of-month number n of month (y, m)", spilling forward past the month's end and over the 1582 gap *)
SlotDay(y, m, n) ==
    IF Valid(y, m, n) THEN JDN(y, m, n)
    ELSE IF y = 1582 /\ m = 10 /\ n >= 5 /\ n <= 14 THEN JDN(1582, 10, 4) + (n - 4)
    ELSE JDN(y, m, LastDayNo(y, m)) + (n - LastDayNo(y, m))

(* birth = <<y, m, d, second of day>>, c = <<years, months, days, hours, minutes>>: the end instant <<day number, second>> *)
EndOf(b, c) ==
    LET o == 12 * (b[1] + c[1]) + (b[2] - 1) + c[2]
        ty == o \div 12
        tm == (o % 12) + 1
        base == SlotDay(ty, tm, b[3])
    IN Add(<<base + c[3], b[4]>>, 3600 * c[4] + 60 * c[5])

MaxLimitDays == 4030       \* "never more than about eleven years"

(* decade fortune k (0-based): pillar, start age; yearly fortune k: pillar, age *)
DecadePillar(monthPillar, forward, k) == (monthPillar + (IF forward THEN k + 1 ELSE -(k + 1))) % 60
DecadeStartAge(birthYear, endYear, k) == endYear - birthYear + 1 + 10 * k
YearlyAge(birthYear, endYear, k) == endYear - birthYear + 1 + k
YearlyPillar(hourPillar, forward, age) == (hourPillar + (IF forward THEN age ELSE -age)) % 60
=============================================================================
