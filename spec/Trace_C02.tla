------------------------------ MODULE Trace_C02 ------------------------------
(***************************************************************************)
(* C02 — solar <-> lunar conversion is a bijection that preserves order.   *)
(*   d   one civil day of a walk with its lunar date (harness c02.rs):     *)
(*       round trips, LunarTick against the previous day, LunarDay::next,  *)
(*       before/after/== against the previous day's lunar date             *)
(*   lm  one lunar month: exactly days 1..len are accepted, day k maps to  *)
(*       first + k - 1 and back                                            *)
(*   op  ordered pairs of lunar dates from neighbouring months: before /   *)
(*       after must coincide with the order of their civil days            *)
(***************************************************************************)
EXTENDS DayClock, TraceIO, TLC

VARIABLES l, nv, nt

HasPrev(i) == Rec[i].s = 0 /\ i > 1 /\ Rec[i - 1].k = "d" /\ Rec[i - 1].ok = 1

ToSet(s) == {s[i] : i \in DOMAIN s}

(* a.is_before(b), a.is_after(b), b.is_before(a), b.is_after(a), a == b for a strictly before b *)
OrderFlagsLess == <<1, 0, 0, 1, 0>>
OrderFlagsMore == <<0, 1, 1, 0, 0>>

DayClauses(i) ==
  LET e == Rec[i]
      p == Rec[i - 1]
      lastDay == e.j = JDN_9999_12_31
      firstDay == e.j = JDN_0001_01_01
  IN
  [ civil     |-> Valid(e.y, e.m, e.d) /\ e.j = JDN(e.y, e.m, e.d),
    converts  |-> e.ok = 1,
    lunardate |-> e.ok = 1 => LunarDateOk(e),
    roundtrip |-> e.ok = 1 => e.lb = e.j,
    fresh     |-> e.ok = 1 => e.lf = e.j,
    nextin    |-> (e.ok = 1 /\ ~lastDay) => NextInside(e, e.n1),
    nextroll  |-> (e.ok = 1 /\ ~lastDay /\ e.ld = e.ln) => (e.n1[3] = 1 /\ LabelSuccLoose(e.ly, e.lm, e.n1[1], e.n1[2])),
    (* Tick(p, e) *)
    tick      |-> (HasPrev(i) /\ e.ok = 1 /\ e.j = p.j + 1) => LunarTick(p, e),
    nextprev  |-> (HasPrev(i) /\ e.ok = 1 /\ e.j = p.j + 1) => (p.n1 = <<e.ly, e.lm, e.ld>> /\ e.p1 = <<p.ly, p.lm, p.ld>>),
    order     |-> (HasPrev(i) /\ e.ok = 1 /\ e.j = p.j + 1) => e.o = OrderFlagsLess
  ]

MonthClauses(i) ==
  LET e == Rec[i]
      n == Len(e.acc)
  IN
  [ accepts  |-> ToSet(e.acc) = 1..e.n /\ n = e.n /\ e.zero = 0,
    tocivil  |-> \A k \in 1..n : (k <= Len(e.sj) /\ InRangeJ(e.f + e.acc[k] - 1)) => e.sj[k] = e.f + e.acc[k] - 1,
    back     |-> \A k \in 1..n : (k <= Len(e.rt) /\ InRangeJ(e.f + e.acc[k] - 1)) => e.rt[k] = 1
  ]

PairClauses(i) ==
  LET e == Rec[i] IN
  [ model   |-> (e.ja >= 0 /\ e.jb >= 0) => (LunarLess(e.a, e.b) <=> e.ja < e.jb),
    order   |-> IF e.ja >= 0 /\ e.jb >= 0
                THEN e.o = (IF e.ja < e.jb THEN OrderFlagsLess ELSE OrderFlagsMore)
                ELSE e.o = (IF LunarLess(e.a, e.b) THEN OrderFlagsLess ELSE OrderFlagsMore)
  ]

Clauses(i) ==
  CASE Rec[i].k = "d"  -> DayClauses(i)
    [] Rec[i].k = "lm" -> MonthClauses(i)
    [] Rec[i].k = "op" -> PairClauses(i)
    [] OTHER           -> [walk |-> FALSE]

Failed(i) == LET c == Clauses(i) IN {n \in DOMAIN c : ~c[n]}

Key(i) == LET e == Rec[i] IN
  CASE e.k = "d"  -> [k |-> "d", y |-> e.y, m |-> e.m, d |-> e.d, n |-> e.y * 10000 + e.m * 100 + e.d]
    [] e.k = "lm" -> [k |-> "lm", y |-> e.y, m |-> e.m]
    [] e.k = "op" -> [k |-> "op", y |-> e.a[1], m |-> e.a[2], d |-> e.a[3], y2 |-> e.b[1], m2 |-> e.b[2], d2 |-> e.b[3]]
    [] OTHER      -> [k |-> e.k, at |-> e.at]

(* non-trivial: month roll-overs, leap months, pairs involving a leap month or two years *)
Nontrivial(i) == LET e == Rec[i] IN
  CASE e.k = "d"  -> e.ld = 1 \/ e.ld = e.ln \/ e.lm < 0
    [] e.k = "lm" -> TRUE
    [] e.k = "op" -> e.a[2] < 0 \/ e.b[2] < 0 \/ e.a[1] # e.b[1]
    [] OTHER      -> TRUE

INSTANCE TraceRun WITH Prop <- "C02", NLines <- NRec
=============================================================================
