------------------------------ MODULE Stepping ------------------------------
(***************************************************************************)
(* Stepping as a group action (C11).  A cyclic value of size N steps by    *)
(* (index + n) mod N.  A linear unit has an ordinal projection into the    *)
(* integers (or into instants) and stepping by n adds n units:             *)
(*   year y -> y;  half-year 2y+i;  season 4y+i;  month 12y+m-1;           *)
(*   term 24y+i;  sexagenary month 12*year+index;  day / week -> day       *)
(*   number (unit 1 / 7);  instant -> <<day number, second>> (unit 1 s, or *)
(*   7200 s for a lunar double-hour);  fortunes -> index.                  *)
(* Laws: Step 0 = id, Step a . Step b = Step (a+b), Step a . Step -a = id. *)
(***************************************************************************)
EXTENDS Integers, Sequences, Clock

CycStep(i, n, size) == (i + n) % size

(* kinds of linear unit by trace type id *)
YearLike == {101, 102, 103}
DayLike == {110, 111, 112, 113}
WeekLike == {114, 115}
SecondLike == {120, 121}

HasOrd(t) == t \in YearLike \cup DayLike \cup WeekLike \cup {104, 105, 106, 107, 108, 130, 131}

Ord(t, f) ==
    CASE t \in YearLike \cup DayLike \cup WeekLike \cup {130, 131} -> f[1]
      [] t = 104 -> 2 * f[1] + f[2]
      [] t = 105 -> 4 * f[1] + f[2]
      [] t = 106 -> 12 * f[1] + f[2] - 1
      [] t = 107 -> 24 * f[1] + f[2]
      [] t = 108 -> 12 * f[1] + f[2]

Unit(t) == IF t \in WeekLike THEN 7 ELSE 1

(* well-formedness of the projected fields of a value of type t *)
WellFormed(t, f) ==
    CASE t = 104 -> f[2] \in 0..1
      [] t = 105 -> f[2] \in 0..3
      [] t = 106 -> f[2] \in 1..12
      [] t = 107 -> f[2] \in 0..23
      [] t = 108 -> f[2] \in 0..11 /\ f[3] \in 0..59 /\ f[3] % 12 = (f[2] + 2) % 12
      [] t \in SecondLike \cup {122} -> f[2] \in 0..86399
      [] OTHER -> TRUE
=============================================================================
