------------------------------ MODULE Trace_C20 ------------------------------
(***************************************************************************)
(* C20 — festival and legal-holiday lookups are consistent in both         *)
(* directions.  Events (harness c20.rs): sd a civil date, sf a civil       *)
(* festival by (year, index) with stepping, ly a lunar year with its       *)
(* movable anchors and every festival by index, ld a lunar date, lf        *)
(* stepping a lunar festival, ht / hr / hs / hd the legal-holiday table,   *)
(* its records, stepping and membership.                                   *)
(***************************************************************************)
EXTENDS Festival, Civil, TraceIO, TLC

VARIABLES l, nv, nt

Quads(flat) == [i \in 1..(Len(flat) \div 4) |-> <<flat[4 * i - 3], flat[4 * i - 2], flat[4 * i - 1], flat[4 * i]>>]
Sevens(flat) == [i \in 1..(Len(flat) \div 7) |-> [k \in 1..7 |-> flat[7 * (i - 1) + k]]]

StepOk(size, y, i, q, exists(_, _)) ==       \* q = <<n, found, year, index>>
  LET t == FestivalStep(size, y, i, q[1]) IN
  IF exists(t[1], t[2]) THEN q[2] = 1 /\ q[3] = t[1] /\ q[4] = t[2] ELSE q[2] = 0

CivilExists(y, i) == y >= 1 /\ y <= 9999 /\ CivilFestivalAt(y, i)[1] = 1

Clauses(i) ==
  LET e == Rec[i] IN
  CASE e.k = "sd" ->
         LET want == CivilFestivalOn(e.y, e.m, e.d) IN
         [ found |-> e.f1 = want /\ e.f2 = want,
           day   |-> want >= 0 => e.fd = e.j ]
    [] e.k = "sf" ->
         LET want == CivilFestivalAt(e.y, e.i) IN
         [ byindex |-> e.ok = want[1] /\ (want[1] = 1 => (e.fi = e.i /\ e.day = <<e.y, want[2], want[3]>> /\ e.st = CivilFestivals[e.i + 1][3])),
           step    |-> \A k \in DOMAIN Quads(e.nx) : LET q == Quads(e.nx)[k] IN
                          (FestivalStep(CivilCount, e.y, e.i, q[1])[1] \in 1..9999) => StepOk(CivilCount, e.y, e.i, q, CivilExists) ]
    [] e.k = "ly" ->
         LET fx == Sevens(e.fx) IN
         [ anchors |-> e.qm[1] = e.y /\ e.dz[1] = e.y /\ e.eve[1] = e.y /\ e.eve[3] \in {29, 30} /\ (e.eve[2] = 12 \/ e.eve[2] = -12),
           byindex |-> \A k \in DOMAIN fx :
                          LET r == fx[k]  idx == r[1] IN
                          IF idx >= LunarCount THEN r[2] = 0
                          ELSE LET f == LunarFestivals[idx + 1]
                                   day == IF f[1] = 0 THEN <<e.y, f[2], f[3]>> ELSE IF f[1] = 2 THEN e.eve ELSE IF f[2] = 7 THEN e.qm ELSE e.dz
                               IN r[2] = 1 /\ r[3] = idx /\ <<r[4], r[5], r[6]>> = day,
           (* the day of festival i is found again as i, or as an earlier-listed festival sharing the day *)
           back    |-> \A k \in DOMAIN fx : LET r == fx[k] IN (r[1] < LunarCount /\ r[2] = 1) =>
                          r[7] = LunarFestivalOn(r[5], r[6], <<e.qm[2], e.qm[3]>>, <<e.dz[2], e.dz[3]>>, <<e.eve[2], e.eve[3]>>) /\ r[7] >= 0 /\ r[7] <= r[1] ]
    [] e.k = "ld" ->
         LET want == LunarFestivalOn(e.m, e.d, e.qm, e.dz, e.eve) IN
         [ found |-> e.f1 = want /\ e.f2 = want ]
    [] e.k = "lf" ->
         [ step |-> \A k \in DOMAIN Quads(e.nx) : LET q == Quads(e.nx)[k]  t == FestivalStep(LunarCount, e.y, e.i, q[1]) IN
                       q[2] = 1 /\ q[3] = t[1] /\ q[4] = t[2] ]
    [] e.k = "ht" -> [ table |-> e.len = 13 * e.n /\ e.n >= 1 ]
    [] e.k = "hr" ->
         [ realdate |-> e.valid = 1 /\ InRangeJ(e.j),
           found    |-> e.found = 1 /\ e.found2 = 1 /\ e.hj = e.j /\ e.hw = (IF e.w = 0 THEN 1 ELSE 0),
           fields   |-> e.w \in {0, 1} /\ e.i \in 0..8,
           target   |-> e.tfound = 1 /\ e.twork = 0,
           order    |-> /\ (e.rk < e.n => e.nxt > e.j) /\ (e.rk = e.n => e.nxt = -1)
                        /\ (e.rk > 1 => (e.prv >= 0 /\ e.prv < e.j)) /\ (e.rk = 1 => e.prv = -1)
                        /\ e.zero = e.j,
           chain    |-> (i > 1 /\ Rec[i - 1].k = "hr") => (Rec[i - 1].nxt = e.j /\ e.prv = Rec[i - 1].j /\ Rec[i - 1].j < e.j) ]
    [] e.k = "hs" -> [ step |-> e.got = e.want ]
    [] e.k = "hd" -> [ member |-> e.found = e.rec ]
    [] e.k = "begin" -> [ begin |-> TRUE ]
    [] OTHER -> [ kind |-> FALSE ]

Failed(i) == LET c == Clauses(i) IN {n \in DOMAIN c : ~c[n]}

Key(i) == LET e == Rec[i] IN
  CASE e.k = "sd" -> [k |-> "sd", y |-> e.y, m |-> e.m, d |-> e.d]
    [] e.k = "sf" -> [k |-> "sf", y |-> e.y, i |-> e.i]
    [] e.k = "ly" -> [k |-> "ly", y |-> e.y]
    [] e.k = "ld" -> [k |-> "ld", y |-> e.y, m |-> e.m, d |-> e.d]
    [] e.k = "lf" -> [k |-> "lf", y |-> e.y, i |-> e.i]
    [] e.k = "hr" -> [k |-> "hr", rk |-> e.rk, j |-> e.j]
    [] e.k = "hs" -> [k |-> "hs", rk |-> e.rk, step |-> e.step]
    [] e.k = "hd" -> [k |-> "hd", j |-> e.j]
    [] OTHER      -> [k |-> e.k]

(* non-trivial: dates that carry a festival, founding-year edges, years whose festivals share a day, records, steps, members *)
Nontrivial(i) == LET e == Rec[i] IN
  CASE e.k = "sd" -> e.f1 >= 0 \/ CivilFestivalOn(2024, e.m, e.d) >= 0
    [] e.k = "sf" -> TRUE
    [] e.k = "ly" -> TRUE
    [] e.k = "ld" -> e.f1 >= 0 \/ e.m < 0
    [] e.k = "hd" -> e.rec = 1
    [] e.k \in {"begin", "ht"} -> FALSE
    [] OTHER      -> TRUE

INSTANCE TraceRun WITH Prop <- "C20", NLines <- NRec
=============================================================================
