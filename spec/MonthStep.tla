------------------------------ MODULE MonthStep ------------------------------
(***************************************************************************)
(* C03 / C11 — the stepping ALGORITHM of LunarMonth::next as a transition  *)
(* system.  The code works on the 1-based position of a month in its year  *)
(* (a leap month counts as a position of its own):                         *)
(*                                                                         *)
(*   m := index_in_year + 1 + n;  size := 12 or 13                         *)
(*   forward:  while m > size { m -= size; y += 1; size := 12 or 13 of y } *)
(*   backward: while m <= 0   { y -= 1; size := 12 or 13 of y; m += size } *)
(*   decode:   leap year L > 0:  position L+1 is the leap month,           *)
(*             positions beyond L are month numbers one less               *)
(*                                                                         *)
(* Abstract calendar: NYears consecutive lunar years whose leap month      *)
(* (0 = none, 1..12) is chosen freely.  Property (Ordinal): the result is  *)
(* the month n places from the start in the one sequence of all months,    *)
(* and (Label) its label is the one LunarCal.tla gives that position.      *)
(***************************************************************************)
EXTENDS Integers, Sequences

CONSTANTS NYears, MaxStep

VARIABLES leap,       \* leap month of each year, 0 = none
          y0, p0, n,  \* start: year, 1-based position in the year; step
          y, m, pc,
          label       \* decoded month number, negative for a leap month

vars == <<leap, y0, p0, n, y, m, pc, label>>

Size(l, i) == IF l[i] > 0 THEN 13 ELSE 12
RECURSIVE Before(_, _)
Before(l, i) == IF i = 1 THEN 0 ELSE Size(l, i - 1) + Before(l, i - 1)     \* months before year i
Ordinal(l, i, p) == Before(l, i) + p

(* the label at 1-based position p of a year with leap month L (LunarCal.tla: 1..L, -L, L+1..12) *)
LabelAt(L, p) == IF L = 0 THEN p ELSE IF p <= L THEN p ELSE IF p = L + 1 THEN -L ELSE p - 1

Init ==
  /\ leap \in [1..NYears -> 0..12]
  /\ y0 \in 1..NYears
  /\ p0 \in 1..13 /\ p0 <= Size(leap, y0)
  /\ n \in ((-MaxStep)..MaxStep) \ {0}
  /\ y = y0 /\ m = p0 + n
  /\ pc = "loop" /\ label = 0

Forward ==
  /\ pc = "loop" /\ n > 0 /\ m > Size(leap, y) /\ y < NYears
  /\ m' = m - Size(leap, y)
  /\ y' = y + 1
  /\ UNCHANGED <<leap, y0, p0, n, pc, label>>

Backward ==
  /\ pc = "loop" /\ n < 0 /\ m <= 0 /\ y > 1
  /\ y' = y - 1
  /\ m' = m + Size(leap, y - 1)
  /\ UNCHANGED <<leap, y0, p0, n, pc, label>>

Decode ==
  /\ pc = "loop"
  /\ IF n > 0 THEN m <= Size(leap, y) ELSE m > 0
  /\ LET L == leap[y]
         isLeap == L > 0 /\ m = L + 1
         num == IF L > 0 /\ m > L THEN m - 1 ELSE m
     IN label' = IF isLeap THEN -num ELSE num
  /\ pc' = "done"
  /\ UNCHANGED <<leap, y0, p0, n, y, m>>

Leave ==
  /\ pc = "loop"
  /\ \/ n > 0 /\ m > Size(leap, y) /\ y = NYears
     \/ n < 0 /\ m <= 0 /\ y = 1
  /\ pc' = "left"
  /\ UNCHANGED <<leap, y0, p0, n, y, m, label>>

Next == Forward \/ Backward \/ Decode \/ Leave
Spec == Init /\ [][Next]_vars /\ WF_vars(Next)

Ordinality == pc = "done" => (m \in 1..Size(leap, y) /\ Ordinal(leap, y, m) = Ordinal(leap, y0, p0) + n)
Label == pc = "done" => label = LabelAt(leap[y], m)
Termination == <>(pc \in {"done", "left"})
=============================================================================
