SPECIFICATION Spec
CONSTANT CarryMode = "cascade"
INVARIANT Carry
CHECK_DEADLOCK FALSE
