SPECIFICATION Spec
CONSTANT Days = 26
CONSTANT JanDays = 3
CONSTANT Mode = "noahead"
INVARIANT YearLaw
INVARIANT MonthLaw
CHECK_DEADLOCK FALSE
