SPECIFICATION Spec
CONSTANTS
  Lengths <- MCLengthsSmall
  NLun = 4
  MaxOff = 2
  LoopMode = "both"
INVARIANT Found
PROPERTY Termination
CHECK_DEADLOCK FALSE
