SPECIFICATION Spec
CONSTANTS
  FromJ = 1721424
  ToJ = 5373484
  Slip = FALSE
INVARIANTS Forward Backward Agree Done
CHECK_DEADLOCK FALSE
