----------------------------- MODULE MC_Festival -----------------------------
(***************************************************************************)
(* Mode A for C20: a festival walker steps along the civil list one place  *)
(* at a time through the founding years; invariants: a festival exists     *)
(* exactly from its founding year, the date lookup inverts the index       *)
(* lookup, stepping by n then -n returns, and the carry is a floor carry.  *)
(* The lunar table is checked for its structure (one New Year's Eve, two   *)
(* term festivals, distinct fixed dates).                                  *)
(***************************************************************************)
EXTENDS Festival, TLC, FiniteSets

VARIABLES y, i
vars == <<y, i>>
Init == y = 1930 /\ i = 0
Next == /\ y < 1990
        /\ LET t == FestivalStep(CivilCount, y, i, 1) IN y' = t[1] /\ i' = t[2]
Spec == Init /\ [][Next]_vars

InvFounding == CivilFestivalAt(y, i)[1] = 1 <=> y >= CivilFestivals[i + 1][3]
InvInverse  == CivilFestivalAt(y, i)[1] = 1 => CivilFestivalOn(y, CivilFestivalAt(y, i)[2], CivilFestivalAt(y, i)[3]) = i
InvStep     == \A n \in {-25, -10, -1, 0, 1, 9, 10, 11} :
                  LET t == FestivalStep(CivilCount, y, i, n) IN FestivalStep(CivilCount, t[1], t[2], -n) = <<y, i>> /\ t[2] \in 0..9
InvNone     == CivilFestivalOn(y, 2, 30) = -1 /\ CivilFestivalOn(y, 10, 2) = -1

ASSUME Cardinality({k \in 1..LunarCount : LunarFestivals[k][1] = 2}) = 1
ASSUME Cardinality({k \in 1..LunarCount : LunarFestivals[k][1] = 1}) = 2
ASSUME \A a, b \in 1..LunarCount : (a # b /\ LunarFestivals[a][1] = 0 /\ LunarFestivals[b][1] = 0) => LunarFestivals[a] # LunarFestivals[b]
ASSUME \A a, b \in 1..CivilCount : a # b => <<CivilFestivals[a][1], CivilFestivals[a][2]>> # <<CivilFestivals[b][1], CivilFestivals[b][2]>>
(* a winter-solstice day that is also the 8th of the 12th month: the earlier-listed festival wins *)
ASSUME LunarFestivalOn(12, 8, <<3, 1>>, <<12, 8>>, <<12, 30>>) = 10
ASSUME LunarFestivalOn(12, 30, <<3, 1>>, <<11, 20>>, <<12, 30>>) = 12
ASSUME LunarFestivalOn(-5, 5, <<3, 1>>, <<11, 20>>, <<12, 30>>) = -1
=============================================================================
