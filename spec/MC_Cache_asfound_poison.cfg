SPECIFICATION Spec
CONSTANTS
  Threads = {1, 2}
  Reqs <- MCReqs
  ValidReqs <- MCValid
  MaxCalls = 2
  KeyMode = "delimited"
  CsMode = "unwrap-inside"
INVARIANT Inv
CHECK_DEADLOCK FALSE
