------------------------------ MODULE Trace_C03 ------------------------------
(***************************************************************************)
(* C03 — lunar months tile time: 29/30 days, 12/13 per year, no gaps or    *)
(* overlaps.  Trace spec of the month clock (LunarCal / MC_MonthClock).    *)
(*   mon  one lunation of a walk by LunarMonth::next(1) (harness c03.rs)   *)
(*   yr   one lunar year: leap month, counts, listed months                *)
(* Action NextMonth relates consecutive `mon` lines:                       *)
(*   first' = first + len,  label' = LabelSucc(label, leap of year),       *)
(*   idx' = idx + 1 or 0,   len' \in {29, 30}                              *)
(* and every line must also be what from_ym, the uncached constructor,     *)
(* next(0), next(-1) of its successor and next(n) of its neighbours say.   *)
(***************************************************************************)
EXTENDS LunarCal, TraceIO, TLC

VARIABLES l, nv, nt

Five(e) == <<e.y, e.m, e.n, e.idx, e.f>>
IsMon(i) == i >= 1 /\ i <= NRec /\ Rec[i].k = "mon"
SameSeg(i, j) == IsMon(i) /\ IsMon(j) /\ Rec[i].sg = Rec[j].sg /\ Rec[j].ix - Rec[i].ix = j - i

FarOk(i) ==
  LET e == Rec[i] IN
  \A k \in 0..((Len(e.far) \div 4) - 1) :
    LET n == e.far[4 * k + 1] IN
    SameSeg(i, i + n) => <<e.far[4 * k + 2], e.far[4 * k + 3], e.far[4 * k + 4]>> = <<Rec[i + n].y, Rec[i + n].m, Rec[i + n].f>>

MonClauses(i) ==
  LET e == Rec[i]
      hasp == e.s = 0 /\ IsMon(i - 1)
      p == Rec[i - 1]
      sc == LabelSucc(e.y, e.m, e.lp)
      last == sc[1] > 9999
  IN
  [ len       |-> e.n \in MonthLens,
    label     |-> e.lp \in 0..12 /\ ValidLabel(e.m, e.lp),
    idx       |-> e.lp \in 0..12 => e.idx = IndexInYear(e.m, e.lp),
    fresh     |-> e.fr = Five(e),
    uncached  |-> e.nw = Five(e),
    zero      |-> e.z = Five(e),
    nextlabel |-> IF last THEN e.nx[1] = -1 ELSE <<e.nx[1], e.nx[2]>> = sc,
    nexttile  |-> ~last => e.nx[5] = e.f + e.n,
    back      |-> ~last => e.bk = Five(e),
    prev      |-> hasp => e.pv = Five(p),
    (* NextMonth(p, e) *)
    tile      |-> hasp => e.f = p.f + p.n,
    succ      |-> hasp => <<e.y, e.m>> = LabelSucc(p.y, p.m, p.lp),
    idxsucc   |-> hasp => e.idx = (IF e.y = p.y THEN p.idx + 1 ELSE 0),
    far       |-> FarOk(i)
  ]

YrClauses(i) ==
  LET e == Rec[i]
      n == Len(e.ml)
  IN
  [ count     |-> e.lp \in 0..12 /\ e.cnt = MonthCount(e.lp) /\ n = e.cnt /\ Len(e.mn) = n /\ Len(e.mf) = n,
    labels    |-> e.lp \in 0..12 => e.ml = YearLabels(e.lp),
    years     |-> \A k \in DOMAIN e.my : e.my[k] = e.y,
    lens      |-> \A k \in DOMAIN e.mn : e.mn[k] \in MonthLens,
    daysum    |-> e.days = SumSeq(e.mn),
    yearlen   |-> e.days \in YearLens,
    tile      |-> \A k \in 1..(Len(e.mf) - 1) : k + 1 <= Len(e.mn) => e.mf[k + 1] = e.mf[k] + e.mn[k],
    newyear   |-> (e.nf >= 0 /\ Len(e.mf) >= 1) => e.mf[1] + e.days = e.nf
  ]

Clauses(i) ==
  CASE Rec[i].k = "mon" -> MonClauses(i)
    [] Rec[i].k = "yr"  -> YrClauses(i)
    [] OTHER            -> [walk |-> FALSE]

Failed(i) == LET c == Clauses(i) IN {n \in DOMAIN c : ~c[n]}

Key(i) == LET e == Rec[i] IN
  CASE e.k = "mon" -> [k |-> "mon", y |-> e.y, m |-> e.m]
    [] e.k = "yr"  -> [k |-> "yr", y |-> e.y]
    [] OTHER       -> [k |-> e.k, y |-> e.y, m |-> e.m]

(* non-trivial: leap months and their neighbours, year ends/starts, leap years *)
Nontrivial(i) == LET e == Rec[i] IN
  CASE e.k = "mon" -> e.m < 0 \/ e.m = e.lp \/ e.m = 1 \/ e.m = 12
    [] e.k = "yr"  -> e.lp > 0
    [] OTHER       -> TRUE

INSTANCE TraceRun WITH Prop <- "C03", NLines <- NRec
=============================================================================
