------------------------------ MODULE TimeCarry ------------------------------
(***************************************************************************)
(* C12 / C11 — the carry cascade of SolarTime::next as a function on       *)
(* (hour, minute, second, n), with Rust's TRUNCATING division and          *)
(* remainder made explicit:                                                *)
(*                                                                         *)
(*   ts := second + n;  tm := minute + ts / 60;  ts %= 60;                 *)
(*   if ts < 0 { ts += 60; tm -= 1 }                                       *)
(*   th := hour + tm / 60;  tm %= 60;  if tm < 0 { tm += 60; th -= 1 }      *)
(*   td := th / 24;  th %= 24;  if th < 0 { th += 24; td -= 1 }             *)
(*                                                                         *)
(* CarryMode = "cascade" is the shipped code.  "total" is the rewrite that *)
(* seeded changes keep proposing (seconds since midnight + n, day carry =  *)
(* total / 86400 minus one when total is negative): it is one day short    *)
(* exactly when total is a negative multiple of 86400.                     *)
(*                                                                         *)
(* Property (Carry): the result is <<floor(total / 86400), total mod       *)
(* 86400>> split into hour, minute, second — Clock.tla's Add on the time   *)
(* of day.                                                                 *)
(***************************************************************************)
EXTENDS Integers

CONSTANT CarryMode

(* Rust's / and % on isize: truncation toward zero, remainder with the sign of the dividend *)
TDiv(a, b) == IF a >= 0 THEN a \div b ELSE -((-a) \div b)
TRem(a, b) == a - b * TDiv(a, b)

Cascade(h, mi, s, n) ==
  LET ts0 == s + n
      tm0 == mi + TDiv(ts0, 60)
      ts1 == TRem(ts0, 60)
      ts  == IF ts1 < 0 THEN ts1 + 60 ELSE ts1
      tm1 == IF ts1 < 0 THEN tm0 - 1 ELSE tm0
      th0 == h + TDiv(tm1, 60)
      tm2 == TRem(tm1, 60)
      tm  == IF tm2 < 0 THEN tm2 + 60 ELSE tm2
      th1 == IF tm2 < 0 THEN th0 - 1 ELSE th0
      td0 == TDiv(th1, 24)
      th2 == TRem(th1, 24)
      th  == IF th2 < 0 THEN th2 + 24 ELSE th2
      td  == IF th2 < 0 THEN td0 - 1 ELSE td0
  IN <<td, th, tm, ts>>

Total(h, mi, s, n) ==
  LET total == 3600 * h + 60 * mi + s + n
      td == IF total < 0 THEN TDiv(total, 86400) - 1 ELSE TDiv(total, 86400)
      r == total % 86400                      \* rem_euclid
  IN <<td, r \div 3600, (r \div 60) % 60, r % 60>>

Result(h, mi, s, n) == IF CarryMode = "cascade" THEN Cascade(h, mi, s, n) ELSE Total(h, mi, s, n)

(* the mathematical meaning: floor and non-negative remainder of the total *)
Want(h, mi, s, n) ==
  LET total == 3600 * h + 60 * mi + s + n
      r == total % 86400
  IN <<total \div 86400, r \div 3600, (r \div 60) % 60, r % 60>>

VARIABLES h, mi, s, n
vars == <<h, mi, s, n>>
Steps == {-172800, -172799, -86401, -86400, -86399, -3601, -3600, -3599, -61, -60, -59, -1, 1, 59, 60, 61, 3599, 3600, 3601, 86399, 86400, 86401, 172800}
Init == h \in 0..23 /\ mi \in {0, 1, 30, 59} /\ s \in {0, 1, 30, 59} /\ n \in Steps \cup {-(3600 * h + 60 * mi + s), -(3600 * h + 60 * mi + s) - 86400, 86400 - (3600 * h + 60 * mi + s)}
Next == UNCHANGED vars
Spec == Init /\ [][Next]_vars

Carry == Result(h, mi, s, n) = Want(h, mi, s, n)
=============================================================================
