SPECIFICATION Spec
CONSTANT U = 4
CONSTANT L = 118
CONSTANT Pert <- MCPertBig
CONSTANT Steps <- MCStepsBig
CONSTANT Mode = "day"
INVARIANT AnchorLaw
INVARIANT AnchorNear
CHECK_DEADLOCK FALSE
