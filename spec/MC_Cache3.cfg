SPECIFICATION Spec
CONSTANTS
  Threads = {1, 2, 3}
  Reqs <- MCReqsSmall
  ValidReqs <- MCValidSmall
  MaxCalls = 2
  KeyMode = "delimited"
  CsMode = "split"
INVARIANT Inv
CHECK_DEADLOCK FALSE
