SPECIFICATION Spec
INVARIANTS InvRange InvZero InvInverse InvCompose InvPeriod InvCarry
CHECK_DEADLOCK FALSE
