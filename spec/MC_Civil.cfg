SPECIFICATION Spec
CONSTANTS
  FromJ = 1721424
  ToJ = 5373484
INVARIANTS InvValid InvJdn InvDateOf InvPred InvDoy InvDim InvGap InvOrder InvAnchors Done
CHECK_DEADLOCK FALSE
