-------------------------- MODULE MC_MidnightGuard --------------------------
(***************************************************************************)
(* Mode A for C05: the day-level routine as a two-step machine.  A precise *)
(* instant at second s of a day is first estimated by a fast solver with   *)
(* error e; if the estimate lies within Guard seconds of midnight the      *)
(* precise solver is used instead.  Invariant (soundness of the guard):    *)
(* whenever |e| < Guard the reported day is the day of the precise         *)
(* instant.  The companion config with |e| up to 2 Guard shows the         *)
(* invariant is violated outside the band (expected to FAIL; selftest).    *)
(***************************************************************************)
EXTENDS Ephemeris, TLC

CONSTANTS Guard, MaxErr

VARIABLES s, e, pc, day

vars == <<s, e, pc, day>>

Seconds == {0, 1, Guard - 1, Guard, Guard + 1, 2 * Guard, 43200, 86400 - 2 * Guard, 86400 - Guard - 1, 86400 - Guard, 86400 - Guard + 1, 86399}
Errors == {-MaxErr, -Guard - 1, -Guard, -Guard + 1, -600, -1, 0, 1, 600, Guard - 1, Guard, Guard + 1, MaxErr}

Init == s \in Seconds /\ e \in {x \in Errors : x >= -MaxErr /\ x <= MaxErr} /\ pc = "fast" /\ day = -9

Fast == /\ pc = "fast"
        /\ LET v == (s + e) % 86400 IN
           IF v < Guard \/ v > 86400 - Guard
           THEN pc' = "precise" /\ day' = day
           ELSE pc' = "done" /\ day' = DayAfter(0, s, e)
        /\ UNCHANGED <<s, e>>

Precise == pc = "precise" /\ pc' = "done" /\ day' = 0 /\ UNCHANGED <<s, e>>

Spec == Init /\ [][Fast \/ Precise]_vars

Sound == (pc = "done" /\ e > -Guard /\ e < Guard) => day = 0
=============================================================================
