------------------------------- MODULE Extras -------------------------------
(***************************************************************************)
(* X02 (beyond the listed properties) — the parts of the public API that   *)
(* none of C01..C20 names: back references from a part to the whole that   *)
(* lists it, ordering of lunar hours, agreement of the two routes (lunar   *)
(* and sexagenary) to the same derived attribute, Jupiter (Tai Sui)        *)
(* directions, the day foetus spirit through its three constructors, the   *)
(* second eight-character strategy, lunar-year labels of fortunes, and the *)
(* small enumerations.                                                     *)
(*                                                                         *)
(* Where a rule is a correspondence table (Jupiter by year branch, month   *)
(* rule) it is transcribed from the upstream tables and marked so; all     *)
(* other clauses relate two independent routes through the API.            *)
(***************************************************************************)
EXTENDS Integers, Sequences, TLC

(* ---- Jupiter (Tai Sui) directions; Direction indices in Luoshu order:
        0 N, 1 SW, 2 E, 3 SE, 4 centre, 5 NW, 6 W, 7 NE, 8 S -------------------- *)
(* by year branch (upstream table: Zi N; Chou, Yin NE; Mao E; Chen, Si SE; Wu S; Wei, Shen SW; You W; Xu, Hai N) *)
JupiterYear == <<0, 7, 7, 2, 3, 3, 8, 1, 1, 6, 0, 0>>
JupiterOfYear(yearPillar) == JupiterYear[(yearPillar % 12) + 1]

(* stem direction: Jia Yi E, Bing Ding S, Wu Ji centre, Geng Xin W, Ren Gui N *)
StemDirection == <<2, 2, 8, 8, 4, 4, 6, 6, 0, 0>>
(* by month pillar: counted from Yin, the months go NE, (stem's direction), SW, SE in turn *)
JupiterOfMonth(monthPillar) ==
  LET k == ((monthPillar % 12) - 2) % 4 IN
  CASE k = 0 -> 7 [] k = 1 -> StemDirection[(monthPillar % 10) + 1] [] k = 2 -> 1 [] OTHER -> 3

(* by day pillar: in the first six days of each run of twelve the direction of the run's element
   (runs: wood E, fire S, earth centre, metal W, water N), otherwise the year's direction *)
ElementDirection == <<2, 8, 4, 6, 0>>
JupiterOfDay(dayPillar, yearPillar) ==
  IF dayPillar % 12 < 6 THEN ElementDirection[(dayPillar \div 12) + 1] ELSE JupiterOfYear(yearPillar)

(* ---- day officer of an eight-character chart: Jian where day branch = month branch, one step per branch ---- *)
DutyOf(monthPillar, dayPillar) == ((dayPillar % 12) - (monthPillar % 12)) % 12

(* ---- lunar season of a lunar month: Meng/Zhong/Ji of spring..winter by month number (a leap month as its twin) ---- *)
SeasonOfMonth(m) == (IF m < 0 THEN -m ELSE m) - 1

(* ---- order of instants given as <<jdn, second of day>> ---- *)
Before(a, b) == a[1] < b[1] \/ (a[1] = b[1] /\ a[2] < b[2])

(* ---- second eight-character strategy ("late Zi hour keeps the day"): year, month and hour pillars as the default
        strategy, the day pillar is the lunar day's own (not rolled at 23:00) ---- *)
Sect2(default4, lunarDayPillar) == <<default4[1], default4[2], lunarDayPillar, default4[4]>>

(* ---- lunar-year labels of fortunes: the birth's lunar year moved by the civil years the child limit spans,
        then by the fortune's offset ---- *)
EndLunarYear(birthLunarYear, birthCivilYear, endCivilYear) == birthLunarYear + endCivilYear - birthCivilYear
=============================================================================
