------------------------------ MODULE Trace_C04 ------------------------------
(***************************************************************************)
(* C04 — month numbers and the leap month follow the no-major-term rule.   *)
(* One `sui` event per lunar year Y (harness c04.rs): the library's        *)
(* consecutive months around the span (labels, first days), the            *)
(* calendar-making days of the 13 major terms, the stored leap months.     *)
(* The labels the rule of LeapRule.tla computes from the days alone must   *)
(* be the labels the library gives.                                        *)
(***************************************************************************)
EXTENDS LeapRule, TraceIO, TLC

VARIABLES l, nv, nt

Abs(x) == IF x < 0 THEN -x ELSE x

SuiClauses(e) ==
  LET f == e.mf
      z == e.z
      a == LunationOf(f, z[1])
      b == LunationOf(f, z[13])
      k == b - a
      want == ExpectedLabels(f, z)
  IN
  [ input    |-> Len(f) >= 15 /\ Len(z) = 13 /\ \A i \in 1..(Len(f) - 1) : f[i] < f[i + 1],
    located  |-> a >= 1 /\ b > a,
    length   |-> (a >= 1 /\ b > a) => k \in {12, 13},
    solstice |-> (a >= 1 /\ b > a) => (e.mm[a] = 11 /\ e.mm[b] = 11),
    labels   |-> (a >= 1 /\ b > a /\ k \in {12, 13}) => \A j \in 0..(k - 1) : e.mm[a + j] = want[j],
    stored   |-> (a >= 1 /\ b > a /\ k \in {12, 13}) =>
                   LET j1 == CHOOSE j \in 0..(k - 1) : want[j] = 1 /\ \A x \in 0..(j - 1) : want[x] # 1
                       before == {j \in 0..(k - 1) : j < j1 /\ want[j] < 0}      \* leap 11 / 12 of year Y-1
                       after  == {j \in 0..(k - 1) : j > j1 /\ want[j] < 0}      \* leap 1 .. 10 of year Y
                   IN /\ \A j \in before : e.lp0 = -want[j]
                      /\ \A j \in after : e.lp1 = -want[j]
                      /\ (after = {}) => e.lp1 \in {0, 11, 12}
                      /\ (before = {}) => e.lp0 \notin {11, 12}
  ]

(* "every lunar year 27..9998 except the three years around the AD 237-240 reform": the property's own exclusion *)
ReformYears == {238, 239, 240}

Clauses(i) == IF Rec[i].k = "sui"
              THEN IF Rec[i].y \in ReformYears THEN [excluded |-> TRUE] ELSE SuiClauses(Rec[i])
              ELSE [kind |-> FALSE]
Failed(i) == LET c == Clauses(i) IN {n \in DOMAIN c : ~c[n]}
Key(i) == [k |-> "sui", y |-> Rec[i].y]
(* non-trivial: spans of 13 lunations (a leap month must be placed) *)
Nontrivial(i) == LET e == Rec[i] IN LunationOf(e.mf, e.z[13]) - LunationOf(e.mf, e.z[1]) = 13

INSTANCE TraceRun WITH Prop <- "C04", NLines <- NRec
=============================================================================
