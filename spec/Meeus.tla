------------------------------- MODULE Meeus -------------------------------
(***************************************************************************)
(* C01 / C12 — the day-number ARITHMETIC the library ships                 *)
(* (JulianDay::from_ymd_hms and JulianDay::get_solar_time, src/tyme/jd.rs),*)
(* transcribed statement by statement with its floating-point products     *)
(* written as exact integer quotients:                                     *)
(*     (365.25 * x) as isize      =  (1461 * x) \div 4                     *)
(*     (30.6001 * x) as isize     =  (306001 * x) \div 10000               *)
(*     ((d - 1867216.25) / 36524.25) as isize                              *)
(*                                =  (100 d - 186721625) \div 3652425      *)
(*     ((d - 122.1) / 365.25) as isize = (100 d - 12210) \div 36525        *)
(*     (d / 30.601) as isize      =  (1000 d) \div 30601                   *)
(*     (30.601 * x) as isize      =  (30601 * x) \div 1000                 *)
(* (all operands are non-negative in the supported range, so Rust's        *)
(* truncation is TLA+'s floor; none of the real quotients is an integer    *)
(* except the century one, whose operands are exact binary fractions).     *)
(* Civil.tla states the calendar from its rules; MC_Meeus walks every day  *)
(* of the range and checks that this arithmetic and that calendar agree in *)
(* both directions.  Slip selects the variant three independent seeded     *)
(* changes proposed (C09-w7-1, C15-w7-2, C20-w7-1): the century correction *)
(* taken from the civil year BEFORE January / February are folded into the *)
(* previous year.                                                          *)
(***************************************************************************)
EXTENDS Integers

(* JulianDay::from_ymd_hms at noon: the Julian Day Number *)
ToJdn(year, month, day, slip) ==
  LET g  == year * 372 + month * 31 + day >= 588829
      m  == IF month <= 2 THEN month + 12 ELSE month
      y  == IF month <= 2 THEN year - 1 ELSE year
      c  == (IF slip THEN year ELSE y) \div 100
      n  == IF g THEN 2 - c + (c \div 4) ELSE 0
  IN ((1461 * (y + 4716)) \div 4) + ((306001 * (m + 1)) \div 10000) + day + n - 1524

(* JulianDay::get_solar_time, date part, of the day number j *)
FromJdn(j) ==
  LET c   == (100 * j - 186721625) \div 3652425
      d1  == IF j >= 2299161 THEN j + 1 + c - (c \div 4) ELSE j
      d2  == d1 + 1524
      yr  == (100 * d2 - 12210) \div 36525
      d3  == d2 - ((1461 * yr) \div 4)
      mo  == (1000 * d3) \div 30601
      d4  == d3 - ((30601 * mo) \div 1000)
  IN IF mo > 13 THEN <<yr - 4715, mo - 13, d4>> ELSE <<yr - 4716, mo - 1, d4>>
=============================================================================
