------------------------------ MODULE Trace_X01 ------------------------------
(***************************************************************************)
(* X01 (beyond the listed properties) — the naming layer.  Events (harness *)
(* x01.rs):                                                                *)
(*   cn  the complete name table of one cycle                              *)
(*   nm  one value of one time unit: fields, name, display string          *)
(* The rules are Names.tla.                                                *)
(***************************************************************************)
EXTENDS Names, TraceIO

VARIABLES l, nv, nt

CycleClauses(e) ==
  [ known   |-> e.t \in KnownCycles,
    table   |-> e.t \in KnownCycles => e.names = CycleTable(e.t),
    display |-> e.t \in KnownCycles => e.disp = CycleDisplay(e.t),
    size    |-> Len(e.names) = e.size
  ]

NameClauses(e) ==
  LET ok == e.t \in KnownTypes /\ InRange(e.t, e.f)
      want == IF ok THEN Expect(e.t, e.f) ELSE <<"", "">>
  IN
  [ known   |-> e.t \in KnownTypes,
    fields  |-> e.t \in KnownTypes => InRange(e.t, e.f),
    name    |-> ok => e.n = want[1],
    display |-> ok => e.ds = want[2]
  ]

(* a day of a pentad: the pentad's name is one of 72 (not tabulated here); the display string counts the day *)
PentadClauses(e) == [ display |-> e.ds = e.n \o Nth(e.f[2]) ]

Clauses(i) ==
  CASE Rec[i].k = "cn"    -> CycleClauses(Rec[i])
    [] Rec[i].k = "nm" /\ Rec[i].t = "PhenologyDay" -> PentadClauses(Rec[i])
    [] Rec[i].k = "nm"    -> NameClauses(Rec[i])
    [] Rec[i].k = "begin" -> [begin |-> TRUE]
    [] OTHER              -> [kind |-> FALSE]

Failed(i) == LET c == Clauses(i) IN {n \in DOMAIN c : ~c[n]}

Key(i) == LET e == Rec[i] IN
  CASE e.k = "cn" -> [k |-> "cn", t |-> e.t]
    [] e.k = "nm" -> [k |-> "nm", t |-> e.t, f |-> e.f]
    [] OTHER      -> [k |-> e.k]

Nontrivial(i) == Rec[i].k \in {"cn", "nm"}

INSTANCE TraceRun WITH Prop <- "X01", NLines <- NRec
=============================================================================
