---------------------------- MODULE MC_TermClock ----------------------------
(***************************************************************************)
(* Mode A for C06: terms with free spacing 14..16 whole days walked day by *)
(* day for a few years.  Checks that assigning each day "the latest term   *)
(* that starts on or before it" makes TermTick the only possible step,     *)
(* keeps the day index = days since the term day and <= 16, and that       *)
(* stepping the label by n equals constructing it (both directions).       *)
(***************************************************************************)
EXTENDS TermClock, TLC

CONSTANTS Days

VARIABLES j, ty, ti, tj, nextj, prev

vars == <<j, ty, ti, tj, nextj, prev>>

Init == /\ j = 0 /\ ty = 1 /\ ti = 22 /\ tj = 0
        /\ nextj \in 14..16
        /\ prev = [j |-> -1, ti |-> 21, td |-> 14, tj |-> -15]

Day == [j |-> j, ti |-> ti, td |-> j - tj, tj |-> tj]

Tick ==
    /\ j < Days
    /\ prev' = Day
    /\ j' = j + 1
    /\ IF j + 1 = nextj
       THEN /\ ti' = TermStep(ty, ti, 1)[2] /\ ty' = TermStep(ty, ti, 1)[1]
            /\ tj' = j + 1
            /\ \E g \in 14..16 : nextj' = j + 1 + g
       ELSE UNCHANGED <<ty, ti, tj, nextj>>

Spec == Init /\ [][Tick]_vars

InvBracket == tj <= j /\ j < nextj
InvIndex   == Day.td >= 0 /\ Day.td <= MaxDayIndex
InvTick    == prev.j >= 0 => TermTick(prev, Day)
InvStep    == \A n \in {-49, -25, -24, -1, 0, 1, 23, 24, 25, 49} :
                 /\ TermStep(TermStep(ty, ti, n)[1], TermStep(ty, ti, n)[2], -n) = <<ty, ti>>
                 /\ TermOrd(TermStep(ty, ti, n)[1], TermStep(ty, ti, n)[2]) = TermOrd(ty, ti) + n
                 /\ TermStep(ty, ti, n)[2] \in 0..23
InvYear    == (ti = 0 /\ Day.td = 0 /\ prev.j >= 0) => prev.ti = 23
=============================================================================
