------------------------------ MODULE LeapRule ------------------------------
(***************************************************************************)
(* The no-major-term rule (C04).  Between two winter solstices (a "sui")   *)
(* lie 12 or 13 lunations, counted from the lunation that contains the     *)
(* first solstice (always month 11) up to, not including, the lunation     *)
(* that contains the second.  With 13, the first lunation that contains no *)
(* major term (zhongqi) is the leap month and repeats the previous number. *)
(*                                                                         *)
(* Inputs are day numbers only: first days f[1..n] of consecutive          *)
(* lunations and the calendar-making days z[1..13] of the thirteen major   *)
(* terms from the first solstice (z[1]) to the second (z[13]).             *)
(***************************************************************************)
EXTENDS Integers, Sequences

(* index of the lunation that contains day d: f[i] <= d < f[i+1]; 0 if none *)
LunationOf(f, d) ==
    LET c == {i \in 1..(Len(f) - 1) : f[i] <= d /\ d < f[i + 1]} IN
    IF c = {} THEN 0 ELSE CHOOSE i \in c : TRUE

HasMajorTerm(f, z, i) == \E k \in DOMAIN z : f[i] <= z[k] /\ z[k] < f[i + 1]

(* number 1..12 of the j-th month (j = 0 for month 11) when no leap month precedes it *)
PlainNumber(j) == ((10 + j) % 12) + 1

(* expected signed labels of the lunations a .. b-1 of a sui (a = lunation of the first solstice, b = of the second) *)
ExpectedLabels(f, z) ==
    LET a == LunationOf(f, z[1])
        b == LunationOf(f, z[13])
        k == b - a
        lacking == {i \in (a + 1)..(b - 1) : ~HasMajorTerm(f, z, i)}
        leapAt == IF k = 13 /\ lacking # {} THEN CHOOSE i \in lacking : \A x \in lacking : i <= x ELSE 0
    IN [j \in 0..(k - 1) |->
          LET i == a + j IN
          IF leapAt = 0 \/ i < leapAt THEN PlainNumber(j)
          ELSE IF i = leapAt THEN -PlainNumber(j - 1)
          ELSE PlainNumber(j - 1)]

SuiLength(f, z) == LunationOf(f, z[13]) - LunationOf(f, z[1])
=============================================================================
