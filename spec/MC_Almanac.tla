----------------------------- MODULE MC_Almanac -----------------------------
(***************************************************************************)
(* Mode A for C17: the recurrences as a day machine with free month        *)
(* boundaries.  A day counter walks Days days; the sexagenary month may    *)
(* change on any day (a Jie) and the lunar month every 29/30 days with any *)
(* (possibly leap) number.  Invariants: the closed forms used by the trace *)
(* spec agree with the defining recurrences (officer +1 per day and        *)
(* repeated on a Jie day; Jian exactly when day branch = month branch; the *)
(* path spirit advances with the branch; the luminary of the mansion is    *)
(* the weekday when mansions advance one per day from a consistent start;  *)
(* the six-day star restarts at month number - 1).                         *)
(***************************************************************************)
EXTENDS Almanac, TLC

CONSTANTS J0, Days

VARIABLES j, mb, duty, ms, lm, ld, len, six

vars == <<j, mb, duty, ms, lm, ld, len, six>>

Init == /\ j = J0 /\ mb \in 0..11
        /\ duty = Officer(Branch(Pillar(J0)), mb)
        /\ ms \in {x \in 0..27 : MansionWeekday(x) = (J0 + 1) % 7}
        /\ lm \in {3, -3, 12} /\ ld = 1 /\ len \in {29, 30}
        /\ six = SixStar(lm, 1)

Tick ==
    /\ j < J0 + Days
    /\ j' = j + 1
    /\ ms' = (ms + 1) % 28
    /\ \E jie \in BOOLEAN :
         /\ mb' = IF jie THEN (mb + 1) % 12 ELSE mb
         /\ duty' = IF jie THEN duty ELSE (duty + 1) % 12
    /\ IF ld < len THEN ld' = ld + 1 /\ six' = (six + 1) % 6 /\ UNCHANGED <<lm, len>>
       ELSE /\ ld' = 1 /\ len' \in {29, 30}
            /\ lm' \in {IF AbsI(lm) = 12 THEN 1 ELSE AbsI(lm) + 1, -AbsI(lm)}
            /\ six' = (AbsI(lm') - 1) % 6

Spec == Init /\ [][Tick]_vars

InvOfficer == duty = Officer(Branch(Pillar(j)), mb)
InvJian    == duty = 0 <=> Branch(Pillar(j)) = mb
InvPath    == PathSpirit(Branch(Pillar(j)), mb) = (PathSpirit(0, mb) + Branch(Pillar(j))) % 12
InvMansion == MansionWeekday(ms) = (j + 1) % 7
InvSix     == six = SixStar(lm, ld)
=============================================================================
