SPECIFICATION Spec
CONSTANT K = 13
INVARIANTS InvNumber InvLeap InvFirst InvClose
CHECK_DEADLOCK FALSE
