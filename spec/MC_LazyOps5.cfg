SPECIFICATION HSpec
CONSTANTS
  Regs = {1, 2}
  Deltas <- MCDeltas
  MaxOps = 5
  StepMode = "fresh"
INVARIANT InvEmit
CHECK_DEADLOCK FALSE
