SPECIFICATION Spec
INVARIANTS InvCompose InvUnits InvMinute InvAfter InvBound InvSpill
CHECK_DEADLOCK FALSE
