---------------------------- MODULE MC_LeapRule ----------------------------
(***************************************************************************)
(* Mode A for C04: the rule as a labelling machine.  A sui of K lunations  *)
(* is walked lunation by lunation; each lunation nondeterministically      *)
(* holds 0, 1 or 2 of the remaining major terms (the first holds the       *)
(* solstice).  The machine labels as the rule says.  Invariants: numbers   *)
(* run 11, 12, 1, ..., at most one leap month, only in a 13-lunation sui,  *)
(* never the first lunation, and the sui ends with month 10 so that the    *)
(* next solstice lunation is 11 again - i.e. the rule is total and closes. *)
(***************************************************************************)
EXTENDS Integers, TLC

CONSTANT K          \* 12 or 13

VARIABLES i,        \* lunation being labelled, 0-based
          used,     \* major terms placed so far (of 12)
          leap,     \* index of the leap lunation, -1 if none yet
          num       \* signed label of lunation i

vars == <<i, used, leap, num>>

Plain(j) == ((10 + j) % 12) + 1

Init == i = 0 /\ used \in {1, 2} /\ leap = -1 /\ num = 11

Step ==
    /\ i < K - 1
    /\ \E t \in 0..2 :
         /\ used + t <= 12
         /\ (K - 2 - i) * 2 >= 12 - used - t                \* the remaining lunations can still hold the remaining terms
         /\ used' = used + t
         /\ i' = i + 1
         /\ IF K = 13 /\ leap = -1 /\ t = 0
            THEN leap' = i + 1 /\ num' = -Plain(i)
            ELSE leap' = leap /\ num' = (IF leap = -1 THEN Plain(i + 1) ELSE Plain(i))

Spec == Init /\ [][Step]_vars

InvNumber == num # 0 /\ (IF num < 0 THEN -num ELSE num) \in 1..12
InvLeap   == (leap # -1) => (K = 13 /\ leap >= 1)
InvFirst  == i = 0 => num = 11
InvClose  == (i = K - 1 /\ used = 12) => ((K = 13 => leap # -1) /\ (IF num < 0 THEN -num ELSE num) = 10)
=============================================================================
