SPECIFICATION Spec
CONSTANTS
  Guard = 1800
  MaxErr = 1799
INVARIANT Sound
CHECK_DEADLOCK FALSE
