----------------------------- MODULE LunarLookup -----------------------------
(***************************************************************************)
(* C02 / C07 — the civil day -> lunar day SEARCH of SolarDay::get_lunar_day *)
(* as a transition system.  The code guesses the lunar month that carries  *)
(* the civil (year, month) numbers, then walks:                            *)
(*                                                                         *)
(*     days := day - FirstDay(m)                                           *)
(*     while days < 0              { m := m - 1; days += Length(m) }       *)
(*     while days >= Length(m)     { days -= Length(m); m := m + 1 }       *)
(*                                                                         *)
(* The second loop is the repair of fix 4b29f6b: as found (LoopMode =      *)
(* "backOnly") the search only walked backwards, which is wrong whenever   *)
(* the guessed month starts more than a month before the day (lunar years  *)
(* 10-21, whose months run one lunation early).                            *)
(*                                                                         *)
(* Abstract calendar: NLun consecutive lunations of freely chosen lengths, *)
(* the day anywhere inside them, the guess anywhere within MaxOff          *)
(* lunations of the one that contains the day.                             *)
(* Property (Found): the search ends in the lunation that contains the     *)
(* day, with days = the day's offset in it.                                *)
(***************************************************************************)
EXTENDS Integers, Sequences

CONSTANTS Lengths, NLun, MaxOff, LoopMode

VARIABLES len, day, m, days, pc
vars == <<len, day, m, days, pc>>

RECURSIVE SumTo(_, _)
SumTo(l, i) == IF i = 0 THEN 0 ELSE l[i] + SumTo(l, i - 1)
First(l, i) == SumTo(l, i - 1)
Total(l) == SumTo(l, NLun)
Contains(l, i, d) == First(l, i) <= d /\ d < First(l, i) + l[i]

Init ==
  /\ len \in [1..NLun -> Lengths]
  /\ day \in 0..(Total(len) - 1)
  /\ m \in 1..NLun
  /\ \E c \in 1..NLun : Contains(len, c, day) /\ m - c \in (-MaxOff)..MaxOff
  /\ days = day - First(len, m)
  /\ pc = "back"

Back ==
  /\ pc = "back" /\ days < 0 /\ m > 1
  /\ m' = m - 1
  /\ days' = days + len[m - 1]
  /\ UNCHANGED <<len, day, pc>>

BackDone ==
  /\ pc = "back" /\ days >= 0
  /\ pc' = IF LoopMode = "both" THEN "forward" ELSE "done"
  /\ UNCHANGED <<len, day, m, days>>

Forward ==
  /\ pc = "forward" /\ days >= len[m] /\ m < NLun
  /\ days' = days - len[m]
  /\ m' = m + 1
  /\ UNCHANGED <<len, day, pc>>

ForwardDone ==
  /\ pc = "forward" /\ days < len[m]
  /\ pc' = "done"
  /\ UNCHANGED <<len, day, m, days>>

Next == Back \/ BackDone \/ Forward \/ ForwardDone
Spec == Init /\ [][Next]_vars /\ WF_vars(Next)

Found == pc = "done" => (Contains(len, m, day) /\ days = day - First(len, m))
Termination == <>(pc = "done")
=============================================================================
