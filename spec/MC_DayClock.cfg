SPECIFICATION Spec
CONSTANTS
  J0 = 2451545
  Days = 500
INVARIANTS InvAnchors InvLunar InvOrder InvTick InvDated
CHECK_DEADLOCK FALSE
