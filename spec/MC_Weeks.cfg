SPECIFICATION Spec
INVARIANTS InvStart InvStride InvFirst InvLast InvCount InvCover InvBorder
CHECK_DEADLOCK FALSE
