------------------------------ MODULE Ephemeris ------------------------------
(***************************************************************************)
(* What the specification can say about the astronomy (C05).  TLC has no   *)
(* reals, so the harness projects every observation to integers (seconds,  *)
(* milliseconds, micro-arcseconds) and this module states the BOUNDS and   *)
(* the day-agreement rule; the series themselves are not modelled.         *)
(*                                                                         *)
(* Day rule: the calendar day of an event is the civil day (UTC+8) on      *)
(* which its precisely computed instant falls.  The day-level routines use *)
(* a fast solver and fall back to the precise one inside a guard band      *)
(* around midnight; that is sound exactly when the fast solver's error is  *)
(* smaller than the guard (MC_MidnightGuard).                              *)
(***************************************************************************)
EXTENDS Integers

(* guard bands of the day-level routines, seconds *)
TermGuard == 1200
MoonGuard == 1800

(* day-agreement claims *)
TermDayFrom == 1961
MoonDayFrom == 1961
MoonDayTo == 8000          \* beyond, the truncated lunar solver leaves its own guard band (102 lunations differ by a day)

(* inverse solvers: residual on the library's own longitude series, micro-arcseconds *)
SubArcsecond == 1000000

(* TT-UT: jump at a segment join and change over one year, milliseconds *)
MaxDeltaTJump == 5000
MaxDeltaTPerYear == 60000

(* independent low-precision theories (Meeus ch. 25 / ch. 49), seconds: the theory's own accuracy plus a margin *)
SunTheoryCivil == 1100        \* 1900..2150, civil time with an independent TT-UT (0.01 degree = 877 s)
SunTheoryTT == 1800           \* -1000..5000 in TT
MoonTheoryCivil == 90         \* 1900..2150
MoonTheoryTT == 320           \* -1000..5000 in TT

(* closed-form low-precision instants against the precise ones in the era the calendar path uses them, seconds *)
LowTermAccuracy == 1800
LowMoonAccuracy == 7200

(* civil day of the instant that lies err seconds after second-of-day s of day j (|err| < 86400) *)
DayAfter(j, s, err) == j + ((s + err) \div 86400)
=============================================================================
