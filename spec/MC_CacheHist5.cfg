SPECIFICATION HSpec
CONSTANTS
  Threads = {1}
  Reqs <- MCReqs
  ValidReqs <- MCValid
  MaxCalls = 5
  KeyMode = "delimited"
  CsMode = "split"
INVARIANT Inv
CHECK_DEADLOCK FALSE
