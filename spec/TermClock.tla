------------------------------ MODULE TermClock ------------------------------
(***************************************************************************)
(* The solar-term clock (C06): the 24 terms of successive years form one   *)
(* sequence (year, index) -> instant; index 0 is the winter solstice that  *)
(* falls in December of the PREVIOUS civil year, odd indices are Jie, even *)
(* ones Qi.  Instants are pairs <<day number, second of day>> (UTC+8).     *)
(* When a term starts is astronomy: an input, bound from the trace.        *)
(***************************************************************************)
EXTENDS Integers, Sequences

TermCount == 24

(* ordinal of a term on the one sequence, and back (floor division: years may be crossed both ways) *)
TermOrd(y, i) == TermCount * y + i
TermOfOrd(o) == <<o \div TermCount, o % TermCount>>

TermStep(y, i, n) == TermOfOrd(TermOrd(y, i) + n)

IsJie(i) == i % 2 = 1
IsQi(i) == i % 2 = 0

(* lexicographic order and distance of instants <<jdn, sec>> *)
InstLess(a, b) == a[1] < b[1] \/ (a[1] = b[1] /\ a[2] < b[2])
InstLeq(a, b) == a = b \/ InstLess(a, b)
(* seconds from a to b; saturates at +-2*10^9 beyond 20,000 days (32-bit integers in TLC: an instant that is wrong by
   centuries must fail a clause, not overflow the tool) *)
InstDiff(a, b) == LET dd == b[1] - a[1] IN
                  IF dd > 20000 THEN 2000000000 ELSE IF dd < -20000 THEN -2000000000
                  ELSE dd * 86400 + (b[2] - a[2])

MinGap == 1261440      \* 14.6 days in seconds
MaxGap == 1365120      \* 15.8 days in seconds

(* NextTerm relates consecutive terms a, b = records with y, i, tj, ts *)
NextTermLabel(a, b) == <<b.y, b.i>> = TermStep(a.y, a.i, 1)
NextTermGap(a, b) == LET g == InstDiff(<<a.tj, a.ts>>, <<b.tj, b.ts>>) IN g > MinGap /\ g < MaxGap

(* day view: a day state has j (day number), ti (term index), td (day index), tj (day of that term) *)
SameTerm(a, b) == b.ti = a.ti /\ b.tj = a.tj /\ b.td = a.td + 1
NewTerm(a, b)  == b.ti = (a.ti + 1) % TermCount /\ b.td = 0 /\ b.tj = b.j
TermTick(a, b) == SameTerm(a, b) \/ NewTerm(a, b)

MaxDayIndex == 16
=============================================================================
