---------------------------- MODULE MC_CacheHist ----------------------------
(***************************************************************************)
(* Mode C generator for C10: every sequential history of HistLen requests  *)
(* over the alphabet, as a behaviour of Cache.tla (one thread), with the   *)
(* response the specification gives after each call.  Each complete        *)
(* behaviour is printed as one REPLAY line; the harness re-executes it in  *)
(* the real code after a memo reset and logs what it saw, and Trace_C10    *)
(* compares response by response.                                          *)
(***************************************************************************)
EXTENDS Cache, Json

(* refusals of four kinds: month number out of range, absent leap month, year beyond the range, and lunar year -1
   (a legal LunarYear whose months are refused because they need year -2) *)
MCReqs == { <<1, 12>>, <<11, 2>>, <<1, 11>>, <<11, 1>>, <<2020, -4>>, <<2020, 13>>, <<2021, -4>>, <<10000, 1>>, <<-1, 1>> }
MCValid == { <<1, 12>>, <<11, 2>>, <<1, 11>>, <<11, 1>>, <<2020, -4>> }

VARIABLE hist      \* completed calls: <<year, month, 1 if the spec answers with the month, 0 if refused>>

HInit == Init /\ hist = <<>>

HNext ==
    /\ Next
    /\ IF calls'[1] > calls[1]
       THEN hist' = Append(hist, <<last'[1][1], last'[1][2], IF resp'[1] = Refused THEN 0 ELSE 1>>)
       ELSE hist' = hist

HSpec == HInit /\ [][HNext]_<<vars, hist>>

Done == calls[1] = MaxCalls /\ pc[1] = "idle"

Emit == Done => PrintT("REPLAY " \o ToJson([h |-> hist]))

Inv == TypeOK /\ Correct /\ NoContagion /\ KeyInjective /\ CacheSound /\ Emit
=============================================================================
