------------------------------ MODULE WeekStep ------------------------------
(***************************************************************************)
(* C14 — the week-stepping ALGORITHM of SolarWeek::next / LunarWeek::next  *)
(* as a transition system, one action per loop iteration of the code:      *)
(*                                                                         *)
(*   forward   d += n; while d >= weekCount(m) { d -= weekCount(m);        *)
(*             m = m.next(1); if the 1st of m is not on the start weekday  *)
(*             { d += 1 } }                                                *)
(*   backward  d += n; while d < 0 { if the 1st of m is not on the start   *)
(*             weekday { d -= 1 }; m = m.next(-1); d += weekCount(m) }     *)
(*                                                                         *)
(* The calendar is abstract: a finite run of months whose lengths are      *)
(* chosen freely from Lengths (28..31, the 21-day October 1582, the 29/30  *)
(* of lunar months), the first month starting on weekday 0.  Weeks.tla's   *)
(* day-number semantics give the meaning: week k of month m (start weekday *)
(* s) begins on day  First(m) + 7k - Offset(m, s).                         *)
(*                                                                         *)
(* Property (StepLaw): when the loop ends, the week it names begins        *)
(* exactly 7n days after the week it started from — for every shape of     *)
(* calendar, every start weekday, every offered week index and every n in  *)
(* the model's range.  Termination: the loop always ends.                  *)
(***************************************************************************)
EXTENDS Integers, Sequences, TLC

CONSTANTS Lengths,     \* month lengths to choose from
          NMonths,     \* months in the abstract calendar
          MaxStep      \* |n| <= MaxStep

VARIABLES len,         \* the calendar: month lengths 1..NMonths
          s,           \* start weekday of the weeks
          m0, k0, n,   \* the week stepped from (month, index) and the step
          m, d,        \* loop variables of the code
          pc

vars == <<len, s, m0, k0, n, m, d, pc>>

RECURSIVE SumTo(_, _)
SumTo(l, i) == IF i = 0 THEN 0 ELSE l[i] + SumTo(l, i - 1)
First(l, i) == SumTo(l, i - 1)                         \* day number of the 1st of month i (month 1 starts on day 0)
FirstWeekday(l, i) == First(l, i) % 7                  \* day 0 is weekday 0
Offset(l, i, st) == (FirstWeekday(l, i) - st) % 7      \* position of the 1st inside its week
WeekCount(l, i, st) == (Offset(l, i, st) + l[i] + 6) \div 7
WeekStart(l, i, k, st) == First(l, i) + 7 * k - Offset(l, i, st)

Init ==
  /\ len \in [1..NMonths -> Lengths]
  /\ s \in 0..6
  /\ m0 \in 1..NMonths
  /\ k0 \in 0..5 /\ k0 < WeekCount(len, m0, s)
  /\ n \in (-MaxStep)..MaxStep
  /\ m = m0 /\ d = k0 + n
  /\ pc = "loop"

(* one iteration of the forward loop *)
Forward ==
  /\ pc = "loop" /\ n > 0 /\ d >= WeekCount(len, m, s) /\ m < NMonths
  /\ m' = m + 1
  /\ d' = d - WeekCount(len, m, s) + (IF FirstWeekday(len, m + 1) # s THEN 1 ELSE 0)
  /\ UNCHANGED <<len, s, m0, k0, n, pc>>

(* one iteration of the backward loop *)
Backward ==
  /\ pc = "loop" /\ n < 0 /\ d < 0 /\ m > 1
  /\ m' = m - 1
  /\ d' = d - (IF FirstWeekday(len, m) # s THEN 1 ELSE 0) + WeekCount(len, m - 1, s)
  /\ UNCHANGED <<len, s, m0, k0, n, pc>>

Exit ==
  /\ pc = "loop"
  /\ \/ n = 0
     \/ n > 0 /\ d < WeekCount(len, m, s)
     \/ n < 0 /\ d >= 0
  /\ pc' = "done"
  /\ UNCHANGED <<len, s, m0, k0, n, m, d>>

(* the walk left the modelled run of months: outside the model, not a verdict *)
Leave ==
  /\ pc = "loop"
  /\ \/ n > 0 /\ d >= WeekCount(len, m, s) /\ m = NMonths
     \/ n < 0 /\ d < 0 /\ m = 1
  /\ pc' = "left"
  /\ UNCHANGED <<len, s, m0, k0, n, m, d>>

Next == Forward \/ Backward \/ Exit \/ Leave

Spec == Init /\ [][Next]_vars /\ WF_vars(Next)

-----------------------------------------------------------------------------
(* C14: stepping a week by n moves its first day by 7n *)
StepLaw == pc = "done" => WeekStart(len, m, d, s) = WeekStart(len, m0, k0, s) + 7 * n

(* the week the loop names is one the month offers *)
Offered == pc = "done" => (d >= 0 /\ d < WeekCount(len, m, s))

(* the loop ends *)
Termination == <>(pc \in {"done", "left"})
=============================================================================
